/-
C16 — property theorems over `Model/C16.lean`.

* `C16_sendall_latest`     for every history of updates / saves (repeats, unchanged values, no-publish,
                           no-save, NEWDASTARD, unknown tags, SENDALL anywhere): every SENDALL reply is
                           exactly the latest live message of every topic ever published (one per topic).
* `C16_sendall_exact`      the same as an explicit iff on the final cache.
* `C16_saved_has_latest`   a save hands to the config file the latest value of every persistent topic.
* `C16_crash_safe_of_shape` any step list of the decidable shape `safeShape` is crash safe;
  `C16_crash_safe`         the step list of `saveState` (as re-read from the source) has that shape: after a
                           kill at any step boundary or inside the write, the next start-up finds the file
                           and reads the complete old or the complete new version;
  `C16_crash_safe_history` the same after any number of complete saves;
  `C16_crash_unsafe_before_fix`  the step list before the repair is NOT crash safe (the finding).
* `C16_save_complete`, `C16_save_keeps_backup`  an uninterrupted save installs the new content and keeps
                           the previous version as the backup.
-/
import DastardV.Model.C16
namespace DastardV.C16

/-! ## (ii) file system -/

set_option linter.unusedSimpArgs false in
theorem execOp_main (c : Content) (fs : FS) (op : FsOp) (h : touchesMain op = false) :
    (execOp c fs op).1.main = fs.main := by
  cases op with
  | write n p => cases n <;> simp_all [touchesMain, execOp, FS.set]
  | remove n p =>
    cases n <;> simp_all [touchesMain, execOp, FS.get] <;> split <;> simp_all [FS.set]
  | rename a b p =>
    cases a <;> cases b <;> simp_all [touchesMain, execOp, FS.get] <;> split <;> simp_all [FS.set]
  | link a b p =>
    cases a <;> cases b <;> simp_all [touchesMain, execOp, FS.get] <;>
      (split <;> simp_all [FS.set]) <;> (split <;> simp_all [FS.set])

set_option linter.unusedSimpArgs false in
theorem execOp_tmp (c : Content) (fs : FS) (op : FsOp) (h : touchesTmp op = false) :
    (execOp c fs op).1.tmp = fs.tmp := by
  cases op with
  | write n p => cases n <;> simp_all [touchesTmp, execOp, FS.set]
  | remove n p =>
    cases n <;> simp_all [touchesTmp, execOp, FS.get] <;> split <;> simp_all [FS.set]
  | rename a b p =>
    cases a <;> cases b <;> simp_all [touchesTmp, execOp, FS.get] <;> split <;> simp_all [FS.set]
  | link a b p =>
    cases a <;> cases b <;> simp_all [touchesTmp, execOp, FS.get] <;>
      (split <;> simp_all [FS.set]) <;> (split <;> simp_all [FS.set])

theorem execOp_writeTmp (c : Content) (fs : FS) (op : FsOp) (h : isWriteTmp op = true) :
    (execOp c fs op).1.tmp = some c := by
  cases op with
  | write n p => cases n <;> simp_all [isWriteTmp, execOp, FS.set]
  | remove n p => simp [isWriteTmp] at h
  | rename a b p => simp [isWriteTmp] at h
  | link a b p => simp [isWriteTmp] at h

theorem execOp_renameTmpMain (c x : Content) (fs : FS) (op : FsOp) (h : isRenameTmpMain op = true)
    (ht : fs.tmp = some x) : (execOp c fs op).1.main = some x ∧ (execOp c fs op).2 = .ok := by
  cases op with
  | write n p => simp [isRenameTmpMain] at h
  | remove n p => simp [isRenameTmpMain] at h
  | link a b p => simp [isRenameTmpMain] at h
  | rename a b p =>
    cases a <;> cases b <;> simp [isRenameTmpMain] at h
    simp [execOp, FS.get, FS.set, ht]

/-- a kill before a step that is not a write of `main` leaves `main` alone -/
theorem crash0_main (c : Content) (op : FsOp) (fs : FS) (j : Option Nat)
    (h : touchesMain op = false ∨ isRenameTmpMain op = true) :
    (match j, op with
      | some n, .write nm _ => fs.set nm (some (c.take n))
      | _, _ => fs).main = fs.main := by
  cases j with
  | none => rfl
  | some n =>
    cases op with
    | write nm p =>
      cases nm
      · rcases h with h | h <;> simp [touchesMain, isRenameTmpMain] at h
      · simp [FS.set]
      · simp [FS.set]
    | remove n p => rfl
    | rename a b p => rfl
    | link a b p => rfl

theorem crashRun_main_untouched (c : Content) (ops : List FsOp) :
    ∀ (fs : FS) (k : Nat) (j : Option Nat), ops.all (fun o => !touchesMain o) = true →
      (crashRun c ops fs k j).main = fs.main := by
  induction ops with
  | nil => intro fs k j _; simp [crashRun]
  | cons op rest ih =>
    intro fs k j h
    simp only [List.all_cons, Bool.and_eq_true, Bool.not_eq_true'] at h
    cases k with
    | zero =>
      simp only [crashRun]
      exact crash0_main c op fs j (Or.inl h.1)
    | succ k =>
      simp only [crashRun]
      split
      · rw [ih _ _ _ h.2]; exact execOp_main c fs op h.1
      · exact execOp_main c fs op h.1

/-- Main lemma: a step list of the safe shape never shows anything but the old or the new content
under the standard name, whenever the process is killed. -/
theorem crashRun_main_of_shape (c : Content) (ops : List FsOp) :
    ∀ (full : Bool) (fs : FS) (k : Nat) (j : Option Nat), safeShape full ops = true →
      (full = true → fs.tmp = some c) →
      (crashRun c ops fs k j).main = fs.main ∨ (crashRun c ops fs k j).main = some c := by
  induction ops with
  | nil => intro full fs k j _ _; simp [crashRun]
  | cons op rest ih =>
    intro full fs k j hs hf
    unfold safeShape at hs
    by_cases htm : touchesMain op = true
    · -- the one step that replaces the standard file
      simp only [htm, if_true, Bool.and_eq_true] at hs
      obtain ⟨⟨hren, hfull⟩, hrest⟩ := hs
      have ht := hf hfull
      cases k with
      | zero =>
        left; simp only [crashRun]
        exact crash0_main c op fs j (Or.inr hren)
      | succ k =>
        right
        have hx := execOp_renameTmpMain c c fs op hren ht
        simp only [crashRun, hx.2, continues, if_true]
        rw [crashRun_main_untouched c rest _ _ _ hrest]; exact hx.1
    · have htm' : touchesMain op = false := by simpa using htm
      simp only [htm', Bool.false_eq_true, if_false] at hs
      cases k with
      | zero =>
        left; simp only [crashRun]
        exact crash0_main c op fs j (Or.inl htm')
      | succ k =>
        have hm := execOp_main c fs op htm'
        simp only [crashRun]
        split
        · have := ih _ (execOp c fs op).1 k j hs (by
            intro hfull'
            by_cases hw : isWriteTmp op = true
            · exact execOp_writeTmp c fs op hw
            · have hw' : isWriteTmp op = false := by simpa using hw
              simp only [hw', Bool.false_eq_true, if_false] at hfull'
              by_cases htt : touchesTmp op = true
              · simp [htt] at hfull'
              · have htt' : touchesTmp op = false := by simpa using htt
                simp only [htt', Bool.false_eq_true, if_false] at hfull'
                rw [execOp_tmp c fs op htt']; exact hf hfull')
          rw [hm] at this; exact this
        · left; exact hm

/-- The property for a list of save steps: whenever the process is killed (after `k` completed steps,
possibly `j` bytes into a write), the next start-up finds the configuration file and reads the complete
old or the complete new version. -/
def CrashSafe (ops : List FsOp) : Prop :=
  ∀ (fs : FS) (old new : Content) (k : Nat) (j : Option Nat), fs.main = some old →
    chkCrash old new (startup (crashRun new ops fs k j)) = true

theorem chkCrash_of_main (old new : Content) (fs : FS) (h : fs.main = some old ∨ fs.main = some new) :
    chkCrash old new (startup fs) = true := by
  rcases h with h | h <;> simp [chkCrash, startup, h]

theorem C16_crash_safe_of_shape (ops : List FsOp) (h : safeShape false ops = true) : CrashSafe ops := by
  intro fs old new k j hm
  apply chkCrash_of_main
  have := crashRun_main_of_shape new ops false fs k j h (by simp)
  rw [hm] at this; exact this

/-- **Crash safety of `saveState`** (for the step list the harness re-reads from the source on every run). -/
theorem C16_crash_safe : CrashSafe saveOps := C16_crash_safe_of_shape saveOps (by decide)

/-- The step list before the repair is not crash safe: killed after `rename main bak`, no file is left
under the standard name and start-up creates an empty one. -/
theorem C16_crash_unsafe_before_fix : ¬ CrashSafe saveOpsBeforeFix := by
  intro h
  have := h { main := some [1], tmp := none, bak := none } [1] [2] 3 none rfl
  revert this; decide

theorem C16_save_complete (fs : FS) (c : Content) : (saveAll c saveOps fs).main = some c := by
  obtain ⟨m, t, b⟩ := fs
  cases m <;> cases b <;>
    simp [saveAll, saveOps, crashRun, execOp, polOf, continues, FS.get, FS.set]

theorem C16_save_keeps_backup (fs : FS) (old c : Content) (h : fs.main = some old) :
    (saveAll c saveOps fs).bak = some old := by
  obtain ⟨m, t, b⟩ := fs
  simp only at h; subst h
  cases b <;> simp [saveAll, saveOps, crashRun, execOp, polOf, continues, FS.get, FS.set]

/-- last element of a list of contents, or `d` for the empty list -/
def lastOr (d : Content) : List Content → Content
  | [] => d
  | x :: r => lastOr x r

theorem saves_main (cs : List Content) : ∀ (fs : FS) (old : Content), fs.main = some old →
    (cs.foldl (fun f x => saveAll x saveOps f) fs).main = some (lastOr old cs) := by
  induction cs with
  | nil => intro fs old h; simpa [lastOr] using h
  | cons x r ih =>
    intro fs old _
    simp only [List.foldl_cons, lastOr]
    exact ih _ x (C16_save_complete fs x)

/-- crash safety after any number of complete saves: the version read is the last completely saved
one or the one being saved -/
theorem C16_crash_safe_history (fs : FS) (old : Content) (cs : List Content) (new : Content)
    (k : Nat) (j : Option Nat) (h : fs.main = some old) :
    chkCrash (lastOr old cs) new
      (startup (crashRun new saveOps (cs.foldl (fun f x => saveAll x saveOps f) fs) k j)) = true :=
  C16_crash_safe _ _ _ k j (saves_main cs fs old h)

/-- non-vacuity: kill between making the backup and the rename, with a stale temporary file around -/
example : chkCrash [1] [2] (startup (crashRun [2] saveOps { main := some [1], tmp := some [9], bak := some [0] } 3 none)) = true ∧
    (crashRun [2] saveOps { main := some [1], tmp := some [9], bak := some [0] } 3 none)
      = { main := some [1], tmp := some [2], bak := some [1] } := by decide

/-! ## (i) replay cache -/

/-- the histories the theorems speak about: every status value has a (non-empty) JSON text -/
def Valid : List Ev → Prop
  | [] => True
  | .upd _ m :: r => m ≠ "" ∧ Valid r
  | .save :: r => Valid r

/-- live messages of an output list pushed on `rl` (most recent first) -/
def pushLive (rl : List (Tag × Msg)) : List Out → List (Tag × Msg)
  | [] => rl
  | .live t m :: r => pushLive ((t, m) :: rl) r
  | _ :: r => pushLive rl r

theorem chkTrace_append (a b : List Out) : ∀ rl,
    chkTrace rl (a ++ b) = (chkTrace rl a && chkTrace (pushLive rl a) b) := by
  induction a with
  | nil => intro rl; simp [chkTrace, pushLive]
  | cons o r ih =>
    intro rl
    cases o with
    | live t m => simp [chkTrace, pushLive, ih]
    | replay l => simp [chkTrace, pushLive, ih, Bool.and_assoc]
    | saved l => simp [chkTrace, pushLive, ih]

theorem pushLive_append (a b : List Out) : ∀ rl, pushLive rl (a ++ b) = pushLive (pushLive rl a) b := by
  induction a with
  | nil => intro rl; rfl
  | cons o r ih => intro rl; cases o <;> simp [pushLive, ih]

theorem saveAdds_noPublish : ∀ t, t ∈ saveAdds → t ∈ noPublish := by decide

theorem lookup_of_mem {α β} [BEq α] [LawfulBEq α] (l : List (α × β)) (a : α) (b : β) (h : (a, b) ∈ l) :
    ∃ b', l.lookup a = some b' := by
  induction l with
  | nil => cases h
  | cons x r ih =>
    obtain ⟨k, v⟩ := x
    by_cases hk : a = k
    · subst hk; exact ⟨v, by simp [List.lookup]⟩
    · have : (a, b) ∈ r := by
        rcases List.mem_cons.mp h with h | h
        · exact absurd (congrArg Prod.fst h) hk
        · exact h
      obtain ⟨b', hb⟩ := ih this
      refine ⟨b', ?_⟩
      have : (a == k) = false := by simpa using hk
      simp [List.lookup, this, hb]

theorem mem_of_lookup {α β} [BEq α] [LawfulBEq α] (l : List (α × β)) (a : α) (b : β)
    (h : l.lookup a = some b) : (a, b) ∈ l := by
  induction l with
  | nil => simp [List.lookup] at h
  | cons x r ih =>
    obtain ⟨k, v⟩ := x
    by_cases hk : a = k
    · subst hk; simp [List.lookup] at h; simp [h]
    · have hk' : (a == k) = false := by simpa using hk
      simp [List.lookup, hk'] at h
      exact List.mem_cons_of_mem _ (ih h)

theorem lookup_cons_eq {β} (l : List (Tag × β)) (t : Tag) (b : β) (x : Tag) :
    ((t, b) :: l).lookup x = if x = t then some b else l.lookup x := by
  by_cases h : x = t
  · subst h; simp [List.lookup]
  · have : (x == t) = false := by simpa using h
    simp [List.lookup, this, h]

/-- representation invariant of the cache against the live messages so far -/
structure CInv (c : Cache) (rl : List (Tag × Msg)) : Prop where
  nodup : c.keys.Nodup
  keys_str : ∀ t, t ∈ c.keys → t ∈ saveAdds ∨ ∃ m, c.strs.lookup t = some m
  str_keys : ∀ t m, c.strs.lookup t = some m → t ∈ c.keys ∧ t ≠ "NEWDASTARD" ∧ t ≠ "SENDALL"
  agree : ∀ t, t ∉ noPublish → t ≠ "SENDALL" → t ≠ "NEWDASTARD" → c.strs.lookup t = rl.lookup t
  rl_ok : ∀ tm, tm ∈ rl → tm.1 ∉ noPublish ∧ tm.1 ≠ "SENDALL"

theorem CInv_init (cfg : List (String × Msg)) : CInv (Cache.init cfg) [] :=
  { nodup := by simp [Cache.init]
    keys_str := by simp [Cache.init]
    str_keys := by simp [Cache.init]
    agree := by simp [Cache.init, List.lookup]
    rl_ok := by simp }

theorem mem_insertKey (keys : List Tag) (t x : Tag) : x ∈ insertKey keys t ↔ x = t ∨ x ∈ keys := by
  unfold insertKey
  split
  · rename_i h
    have : t ∈ keys := by simpa using h
    constructor
    · intro hx; exact Or.inr hx
    · rintro (rfl | hx)
      · exact this
      · exact hx
  · simp

theorem nodup_insertKey (keys : List Tag) (t : Tag) (h : keys.Nodup) : (insertKey keys t).Nodup := by
  unfold insertKey
  split
  · exact h
  · rename_i hc
    have : t ∉ keys := by simpa using hc
    exact List.nodup_cons.mpr ⟨this, h⟩

theorem replay_mem (c : Cache) (t : Tag) (m : Msg) :
    (t, m) ∈ replay c ↔ t ∈ c.keys ∧ t ∉ noPublish ∧ m = strOf c.strs t := by
  simp only [replay, List.mem_map, List.mem_filter, Bool.not_eq_true', List.contains_eq_mem,
    decide_eq_false_iff_not]
  constructor
  · rintro ⟨k, ⟨hk, hp⟩, heq⟩
    cases heq
    exact ⟨hk, hp, rfl⟩
  · rintro ⟨hk, hp, rfl⟩
    exact ⟨t, ⟨hk, hp⟩, rfl⟩

theorem replay_tags (c : Cache) : (replay c).map (·.1) = c.keys.filter (fun k => !noPublish.contains k) := by
  simp [replay, List.map_map, Function.comp_def]

/-- the SENDALL reply of a cache that satisfies the invariant is right -/
theorem chkSendAll_of_inv (c : Cache) (rl : List (Tag × Msg)) (h : CInv c rl) :
    chkSendAll rl (replay c) = true := by
  unfold chkSendAll
  simp only [Bool.and_eq_true, decide_eq_true_eq, List.all_eq_true, Bool.or_eq_true, beq_iff_eq,
    bne_iff_ne, ne_eq, List.contains_eq_mem]
  refine ⟨⟨?_, ?_⟩, ?_⟩
  · rw [replay_tags]; exact List.Nodup.sublist (List.filter_sublist) h.nodup
  · rintro ⟨t, m⟩ hm
    obtain ⟨hk, hp, rfl⟩ := (replay_mem c t m).mp hm
    rcases h.keys_str t hk with hs | ⟨m', hm'⟩
    · exact absurd (saveAdds_noPublish t hs) hp
    · obtain ⟨_, hnd, hsa⟩ := h.str_keys t m' hm'
      have := h.agree t hp hsa hnd
      simp only
      refine ⟨?_, hnd⟩
      rw [← this, hm']; simp [strOf, hm']
  · rintro ⟨t, m⟩ hm
    by_cases hnd : t = "NEWDASTARD"
    · left; exact hnd
    · right
      obtain ⟨hp, hsa⟩ := h.rl_ok _ hm
      obtain ⟨m', hm'⟩ := lookup_of_mem rl t m hm
      have hag := h.agree t hp hsa hnd
      rw [hm'] at hag
      obtain ⟨hk, _, _⟩ := h.str_keys t m' hag
      rw [replay_tags]
      simp only [List.mem_filter, Bool.not_eq_true', List.contains_eq_mem, decide_eq_false_iff_not]
      exact ⟨hk, hp⟩

theorem CInv_saveStep (low : String → String) (c : Cache) (rl : List (Tag × Msg)) (h : CInv c rl) :
    CInv (saveStep low c) rl := by
  have key : ∀ (adds : List Tag) (keys : List Tag), keys.Nodup →
      (adds.foldl insertKey keys).Nodup ∧
      ∀ x, x ∈ adds.foldl insertKey keys ↔ x ∈ adds ∨ x ∈ keys := by
    intro adds
    induction adds with
    | nil => intro keys hk; simp [hk]
    | cons a r ih =>
      intro keys hk
      obtain ⟨h1, h2⟩ := ih (insertKey keys a) (nodup_insertKey keys a hk)
      refine ⟨h1, ?_⟩
      intro x
      rw [List.foldl_cons, h2, mem_insertKey]
      simp only [List.mem_cons]
      constructor
      · rintro (hx | hx | hx)
        · exact Or.inl (Or.inr hx)
        · exact Or.inl (Or.inl hx)
        · exact Or.inr hx
      · rintro ((hx | hx) | hx)
        · exact Or.inr (Or.inl hx)
        · exact Or.inl hx
        · exact Or.inr (Or.inr hx)
  obtain ⟨hn, hmem⟩ := key saveAdds c.keys h.nodup
  exact
    { nodup := hn
      keys_str := by
        intro t ht
        rcases (hmem t).mp ht with hs | hk
        · exact Or.inl hs
        · exact h.keys_str t hk
      str_keys := by
        intro t m hm
        obtain ⟨hk, h2⟩ := h.str_keys t m hm
        exact ⟨(hmem t).mpr (Or.inr hk), h2⟩
      agree := h.agree
      rl_ok := h.rl_ok }

theorem noPublish_ND : "NEWDASTARD" ∉ noPublish := by decide

/-- an ordinary update (not SENDALL, not NEWDASTARD) that leaves the cache `c'` with `t ↦ m` -/
theorem upd_inv (c c' : Cache) (rl : List (Tag × Msg)) (t : Tag) (m : Msg) (h : CInv c rl)
    (hsa : t ≠ "SENDALL")
    (hn : c'.keys.Nodup)
    (hks : ∀ x, x ∈ c'.keys → x ∈ saveAdds ∨ ∃ v, c'.strs.lookup x = some v)
    (hsk : ∀ x v, c'.strs.lookup x = some v → x ∈ c'.keys ∧ x ≠ "NEWDASTARD" ∧ x ≠ "SENDALL")
    (hl : ∀ x, c'.strs.lookup x = if x = t then some m else c.strs.lookup x) :
    chkTrace rl (if noPublish.contains t then [] else [Out.live t m]) = true ∧
      CInv c' (pushLive rl (if noPublish.contains t then [] else [Out.live t m])) := by
  by_cases hp : noPublish.contains t = true
  · simp only [hp, if_true, chkTrace, pushLive, true_and]
    have hp' : t ∈ noPublish := by simpa using hp
    exact
      { nodup := hn, keys_str := hks, str_keys := hsk, rl_ok := h.rl_ok
        agree := by
          intro x hxp hs hnd
          have hx : x ≠ t := by rintro rfl; exact hxp hp'
          rw [← h.agree x hxp hs hnd, hl x, if_neg hx] }
  · have hp' : noPublish.contains t = false := by simpa using hp
    have hp'' : t ∉ noPublish := by simpa using hp'
    simp only [hp', Bool.false_eq_true, if_false, chkTrace, pushLive, true_and]
    exact
      { nodup := hn, keys_str := hks, str_keys := hsk
        agree := by
          intro x hxp hs hnd
          rw [lookup_cons_eq, hl x]
          by_cases hx : x = t
          · simp [hx]
          · simp only [hx, if_false]; exact h.agree x hxp hs hnd
        rl_ok := by
          intro tm htm
          rcases List.mem_cons.mp htm with rfl | htm
          · exact ⟨hp'', hsa⟩
          · exact h.rl_ok tm htm }

/-- one event: the outputs pass the oracle and the invariant is kept -/
theorem step_inv (low : String → String) (c : Cache) (rl : List (Tag × Msg)) (e : Ev) (h : CInv c rl)
    (hv : Valid [e]) :
    chkTrace rl (step low c e).2 = true ∧ CInv (step low c e).1 (pushLive rl (step low c e).2) := by
  cases e with
  | save =>
    simp only [step, chkTrace, pushLive, true_and]
    exact CInv_saveStep low c rl h
  | upd t m =>
    have hm : m ≠ "" := hv.1
    have hm' : (m == "") = false := by simpa using hm
    simp only [step, hm', Bool.or_false]
    by_cases hsa : t = "SENDALL"
    · subst hsa
      simp only [beq_self_eq_true, if_true, chkTrace, pushLive, Bool.and_true]
      exact ⟨chkSendAll_of_inv c rl h, h⟩
    · have hsa' : (t == "SENDALL") = false := by simpa using hsa
      simp only [hsa', Bool.false_eq_true, if_false]
      by_cases hnd : t = "NEWDASTARD"
      · subst hnd
        have : noPublish.contains "NEWDASTARD" = false := by decide
        simp only [this, Bool.false_eq_true, if_false, beq_self_eq_true, if_true, chkTrace, pushLive, true_and]
        exact
          { nodup := h.nodup, keys_str := h.keys_str, str_keys := h.str_keys
            agree := by
              intro x hp hs hn
              rw [lookup_cons_eq, if_neg hn]; exact h.agree x hp hs hn
            rl_ok := by
              intro tm htm
              rcases List.mem_cons.mp htm with rfl | htm
              · exact ⟨noPublish_ND, by simp⟩
              · exact h.rl_ok tm htm }
      · have hnd' : (t == "NEWDASTARD") = false := by simpa using hnd
        simp only [hnd', Bool.false_eq_true, if_false]
        by_cases hch : strOf c.strs t = m
        · -- unchanged value: nothing is stored, and what is stored is already `m`
          have hch' : (strOf c.strs t != m) = false := by simp [hch]
          simp only [hch', Bool.false_eq_true, if_false]
          have hlk : c.strs.lookup t = some m := by
            unfold strOf at hch
            cases hl : c.strs.lookup t with
            | none => rw [hl] at hch; exact absurd hch.symm hm
            | some v => rw [hl] at hch; simpa using hch
          apply upd_inv c c rl t m h hsa h.nodup h.keys_str h.str_keys
          intro x
          by_cases hx : x = t
          · subst hx; simp [hlk]
          · simp [hx]
        · have hch' : (strOf c.strs t != m) = true := by simpa using hch
          simp only [hch', if_true]
          apply upd_inv c _ rl t m h hsa
          · exact nodup_insertKey c.keys t h.nodup
          · intro x hx
            simp only [lookup_cons_eq]
            by_cases hxt : x = t
            · right; exact ⟨m, by simp [hxt]⟩
            · simp only [hxt, if_false]
              rcases (mem_insertKey c.keys t x).mp hx with hx | hx
              · exact absurd hx hxt
              · exact h.keys_str x hx
          · intro x v hv
            simp only [lookup_cons_eq] at hv
            by_cases hxt : x = t
            · subst hxt
              exact ⟨(mem_insertKey c.keys x x).mpr (Or.inl rfl), hnd, hsa⟩
            · simp only [hxt, if_false] at hv
              obtain ⟨hk, h2⟩ := h.str_keys x v hv
              exact ⟨(mem_insertKey c.keys t x).mpr (Or.inr hk), h2⟩
          · intro x; simp [lookup_cons_eq]

theorem Valid_cons (e : Ev) (r : List Ev) (h : Valid (e :: r)) : Valid [e] ∧ Valid r := by
  cases e with
  | upd t m => exact ⟨⟨h.1, trivial⟩, h.2⟩
  | save => exact ⟨trivial, h⟩

/-- whole histories: every output passes the oracle, and the invariant holds at the end -/
theorem run_inv (low : String → String) (h : List Ev) : ∀ (c : Cache) (rl : List (Tag × Msg)), CInv c rl → Valid h →
    chkTrace rl (run low c h).2 = true ∧ CInv (run low c h).1 (pushLive rl (run low c h).2) := by
  induction h with
  | nil => intro c rl hc _; simpa [run, chkTrace, pushLive] using hc
  | cons e r ih =>
    intro c rl hc hv
    obtain ⟨hve, hvr⟩ := Valid_cons e r hv
    obtain ⟨h1, h2⟩ := step_inv low c rl e hc hve
    obtain ⟨h3, h4⟩ := ih (step low c e).1 (pushLive rl (step low c e).2) h2 hvr
    simp only [run]
    refine ⟨?_, ?_⟩
    · rw [chkTrace_append, h1, h3]; rfl
    · rw [pushLive_append]; exact h4

/-- **SENDALL replays exactly the latest message of every published topic.**  For every start-up
configuration and every history of updates (any tags, repeats, unchanged values) and saves in which
every value has a JSON text: each SENDALL reply in the output has one message per topic, each being the
most recent live message of its topic, and no topic that was ever published live (other than the
NEWDASTARD event) is missing. -/
theorem C16_sendall_latest (low : String → String) (cfg : List (String × Msg)) (h : List Ev) (hv : Valid h) :
    chkTrace [] (run low (Cache.init cfg) h).2 = true :=
  (run_inv low h (Cache.init cfg) [] (CInv_init cfg) hv).1

/-- The same for the cache after the history, as an explicit characterisation of what a SENDALL sent
now would publish. -/
theorem C16_sendall_exact (low : String → String) (cfg : List (String × Msg)) (h : List Ev) (hv : Valid h)
    (t : Tag) (m : Msg) :
    (t, m) ∈ replay (run low (Cache.init cfg) h).1 ↔
      (t ≠ "NEWDASTARD" ∧ (pushLive [] (run low (Cache.init cfg) h).2).lookup t = some m) := by
  have hi := (run_inv low h (Cache.init cfg) [] (CInv_init cfg) hv).2
  generalize (run low (Cache.init cfg) h).1 = c at *
  generalize pushLive [] (run low (Cache.init cfg) h).2 = rl at *
  rw [replay_mem]
  constructor
  · rintro ⟨hk, hp, rfl⟩
    rcases hi.keys_str t hk with hs | ⟨m', hm'⟩
    · exact absurd (saveAdds_noPublish t hs) hp
    · obtain ⟨_, hnd, hsa⟩ := hi.str_keys t m' hm'
      refine ⟨hnd, ?_⟩
      rw [← hi.agree t hp hsa hnd, hm']; simp [strOf, hm']
  · rintro ⟨hnd, hl⟩
    obtain ⟨hp, hsa⟩ := hi.rl_ok _ (mem_of_lookup rl t m hl)
    have hag := hi.agree t hp hsa hnd
    rw [hl] at hag
    obtain ⟨hk, _, _⟩ := hi.str_keys t m hag
    exact ⟨hk, hp, by simp [strOf, hag]⟩

/-- The hypothesis `Valid` cannot be dropped in the faithful model: if a state ever failed to marshal
(`m = ""`), nothing would be published for it but the cache would keep the empty text, and a SENDALL
would replay that instead of the last published message.  No status structure of dastard can fail to
marshal (plain data; JSON-RPC cannot deliver NaN), so this is outside the property's domain. -/
theorem C16_sendall_needs_json_text :
    ¬ ∀ h : List Ev, chkTrace [] (run id (Cache.init []) h).2 = true := by
  intro h
  have := h [.upd "MIX" "[1]", .upd "MIX" "", .upd "SENDALL" "0"]
  revert this; decide

/-- non-vacuity: repeats, an unchanged value, a no-publish tag, NEWDASTARD, two SENDALLs -/
example : Valid [.upd "STATUS" "1", .upd "STATUS" "1", .upd "CURRENTTIME" "2", .upd "NEWDASTARD" "3",
      .upd "SENDALL" "0", .upd "ALIVE" "4", .upd "STATUS" "5", .upd "SENDALL" "0"] ∧
    (run id (Cache.init []) [.upd "STATUS" "1", .upd "STATUS" "1", .upd "CURRENTTIME" "2", .upd "NEWDASTARD" "3",
      .upd "SENDALL" "0", .upd "ALIVE" "4", .upd "STATUS" "5", .upd "SENDALL" "0"]).2
      = [.live "STATUS" "1", .live "STATUS" "1", .live "NEWDASTARD" "3", .replay [("STATUS", "1")],
         .live "ALIVE" "4", .live "STATUS" "5", .replay [("ALIVE", "4"), ("STATUS", "5")]] := by
  refine ⟨by simp [Valid], by decide⟩

/-! ### what a save hands to the config file -/

/-- the tags of the history and the bookkeeping keys stay distinct under the key normalisation -/
def LowerInj (low : String → String) (ts : List Tag) : Prop :=
  ∀ a, a ∈ ts → ∀ b, b ∈ ts → low a = low b → a = b

theorem lastUpd_of_mem (h : List Ev) (t : Tag) (ht : t ∈ tagsOf h) : ∃ m, lastUpd h t = some m := by
  induction h with
  | nil => simp [tagsOf] at ht
  | cons e r ih =>
    cases e with
    | save => simpa [tagsOf, lastUpd] using ih (by simpa [tagsOf] using ht)
    | upd t' m =>
      simp only [lastUpd]
      cases hl : lastUpd r t with
      | some x => exact ⟨x, rfl⟩
      | none =>
        have : t = t' := by
          rcases List.mem_cons.mp (by simpa [tagsOf] using ht) with h1 | h1
          · exact h1
          · obtain ⟨x, hx⟩ := ih h1; rw [hl] at hx; cases hx
        subst this; exact ⟨m, by simp⟩

theorem mem_foldl_insertKey (adds : List Tag) : ∀ (keys : List Tag) (x : Tag),
    x ∈ adds.foldl insertKey keys ↔ x ∈ adds ∨ x ∈ keys := by
  induction adds with
  | nil => intro keys x; simp
  | cons a r ih =>
    intro keys x
    rw [List.foldl_cons, ih, mem_insertKey]
    simp only [List.mem_cons]
    constructor
    · rintro (hx | hx | hx)
      · exact Or.inl (Or.inr hx)
      · exact Or.inl (Or.inl hx)
      · exact Or.inr hx
    · rintro ((hx | hx) | hx)
      · exact Or.inr (Or.inl hx)
      · exact Or.inl hx
      · exact Or.inr (Or.inr hx)

/-- effect of one event on `lastMessageStrings` for an ordinary tag -/
theorem step_strs (low : String → String) (c : Cache) (e : Ev) (hv : Valid [e]) (t : Tag)
    (hnd : t ≠ "NEWDASTARD") (hsa : t ≠ "SENDALL") :
    (step low c e).1.strs.lookup t =
      (match lastUpd [e] t with | some x => some x | none => c.strs.lookup t) := by
  cases e with
  | save => simp [step, saveStep, lastUpd]
  | upd t' m =>
    have hm : m ≠ "" := hv.1
    simp only [step, lastUpd]
    by_cases h1 : t' = "SENDALL"
    · subst h1
      have : ("SENDALL" == t) = false := by simpa using (Ne.symm hsa)
      simp [this]
    · have h1' : (t' == "SENDALL") = false := by simpa using h1
      simp only [h1', Bool.false_eq_true, if_false]
      by_cases h2 : t' = "NEWDASTARD"
      · subst h2
        have : ("NEWDASTARD" == t) = false := by simpa using (Ne.symm hnd)
        simp [this]
      · have h2' : (t' == "NEWDASTARD") = false := by simpa using h2
        simp only [h2', Bool.false_eq_true, if_false]
        by_cases hch : strOf c.strs t' = m
        · have hch' : (strOf c.strs t' != m) = false := by simp [hch]
          simp only [hch', Bool.false_eq_true, if_false]
          by_cases hx : t' = t
          · subst hx
            unfold strOf at hch
            cases hl : c.strs.lookup t' with
            | none => rw [hl] at hch; exact absurd hch.symm hm
            | some v => rw [hl] at hch; simp at hch; simp [hch]
          · have : (t' == t) = false := by simpa using hx
            simp [this]
        · have hch' : (strOf c.strs t' != m) = true := by simpa using hch
          simp only [hch', if_true, lookup_cons_eq]
          by_cases hx : t' = t
          · subst hx; simp
          · have : (t' == t) = false := by simpa using hx
            simp [this, Ne.symm hx]

theorem run_strs (low : String → String) (h : List Ev) : ∀ (c : Cache), Valid h → ∀ t, t ≠ "NEWDASTARD" →
    t ≠ "SENDALL" →
    (run low c h).1.strs.lookup t = (match lastUpd h t with | some x => some x | none => c.strs.lookup t) := by
  induction h with
  | nil => intro c _ t _ _; simp [run, lastUpd]
  | cons e r ih =>
    intro c hv t hnd hsa
    obtain ⟨hve, hvr⟩ := Valid_cons e r hv
    simp only [run]
    rw [ih (step low c e).1 hvr t hnd hsa, step_strs low c e hve t hnd hsa]
    cases e with
    | save => simp [lastUpd]
    | upd t' m =>
      simp only [lastUpd]
      cases lastUpd r t <;> simp

theorem run_keys (low : String → String) (h : List Ev) : ∀ (c : Cache) (x : Tag), x ∈ (run low c h).1.keys →
    x ∈ c.keys ∨ x ∈ tagsOf h ∨ x ∈ saveAdds := by
  induction h with
  | nil => intro c x hx; exact Or.inl (by simpa [run] using hx)
  | cons e r ih =>
    intro c x hx
    simp only [run] at hx
    rcases ih _ x hx with h1 | h1 | h1
    · cases e with
      | save =>
        simp only [step, saveStep] at h1
        rcases (mem_foldl_insertKey saveAdds c.keys x).mp h1 with h2 | h2
        · exact Or.inr (Or.inr h2)
        · exact Or.inl h2
      | upd t m =>
        simp only [step] at h1
        split at h1
        · exact Or.inl h1
        · split at h1
          · exact Or.inl h1
          · split at h1
            · rcases (mem_insertKey c.keys t x).mp h1 with h2 | h2
              · exact Or.inr (Or.inl (by simp [tagsOf, h2]))
              · exact Or.inl h2
            · exact Or.inl h1
    · cases e with
      | save => exact Or.inr (Or.inl (by simpa [tagsOf] using h1))
      | upd t m => exact Or.inr (Or.inl (by simp [tagsOf, h1]))
    · exact Or.inr (Or.inr h1)

theorem foldl_vipSet_other (low : String → String) (c : Cache) (keys : List Tag) :
    ∀ (v : List (String × Msg)) (x : String), (∀ k, k ∈ keys → low k ≠ x) →
      (keys.foldl (vipSet low c) v).lookup x = v.lookup x := by
  induction keys with
  | nil => intro v x _; rfl
  | cons k r ih =>
    intro v x hk
    rw [List.foldl_cons, ih _ x (fun k' hk' => hk k' (List.mem_cons_of_mem _ hk'))]
    unfold vipSet
    split
    · rfl
    · rw [lookup_cons_eq, if_neg (Ne.symm (hk k (List.mem_cons_self ..)))]

theorem foldl_vipSet_hit (low : String → String) (c : Cache) (t : Tag) (keys : List Tag) :
    ∀ (v : List (String × Msg)), t ∈ keys → (∀ k, k ∈ keys → low k = low t → k = t) →
      noSave.contains (low t) = false →
      (keys.foldl (vipSet low c) v).lookup (low t) = some (savedVal c t) := by
  induction keys with
  | nil => intro v ht; cases ht
  | cons k r ih =>
    intro v ht hinj hns
    rw [List.foldl_cons]
    by_cases htr : t ∈ r
    · exact ih _ htr (fun k' hk' => hinj k' (List.mem_cons_of_mem _ hk')) hns
    · have hkt : k = t := by
        rcases List.mem_cons.mp ht with h1 | h1
        · exact h1.symm
        · exact absurd h1 htr
      subst hkt
      rw [foldl_vipSet_other low c r _ (low k)]
      · have hns' : low k ∉ noSave := by simpa using hns
        simp [vipSet, hns']
      · intro k' hk' heq
        have := hinj k' (List.mem_cons_of_mem _ hk') heq
        subst this; exact htr hk'

theorem lookup_dedupKeys (l : List (String × Msg)) : ∀ (seen : List String) (x : String),
    (dedupKeys l seen).lookup x = if x ∈ seen then none else l.lookup x := by
  induction l with
  | nil => intro seen x; simp [dedupKeys, List.lookup]
  | cons kv r ih =>
    intro seen x
    obtain ⟨k, v⟩ := kv
    simp only [dedupKeys]
    by_cases hk : k ∈ seen
    · have hk' : seen.contains k = true := by simpa using hk
      simp only [hk', if_true, ih, lookup_cons_eq]
      by_cases hx : x ∈ seen
      · simp [hx]
      · have : x ≠ k := by rintro rfl; exact hx hk
        simp [hx, this]
    · have hk' : seen.contains k = false := by simpa using hk
      simp only [hk', Bool.false_eq_true, if_false, lookup_cons_eq, ih]
      by_cases hx : x = k
      · subst hx; simp [hk]
      · simp [hx]

theorem lookup_filter_key (p : String → Bool) (l : List (String × Msg)) (x : String) :
    (l.filter (fun kv => p kv.1)).lookup x = if p x then l.lookup x else none := by
  induction l with
  | nil => simp [List.lookup]
  | cons kv r ih =>
    obtain ⟨k, v⟩ := kv
    by_cases hp : p k = true
    · simp only [List.filter_cons, hp, if_true, lookup_cons_eq, ih]
      by_cases hx : x = k
      · subst hx; simp [hp]
      · simp [hx]
    · have hp' : p k = false := by simpa using hp
      simp only [List.filter_cons, hp', Bool.false_eq_true, if_false, ih, lookup_cons_eq]
      by_cases hx : x = k
      · subst hx; simp [hp']
      · simp [hx]

/-- **The saved configuration has the latest value of every persistent topic.**  For every start-up
configuration, every history (any tags, repeats, unchanged values, earlier saves) whose values have a
JSON text and whose tags stay distinct under the key normalisation: the settings a save hands to the
config file hold, under the normalised tag, the latest value of every topic that is not on the no-save
list (and is not NEWDASTARD / SENDALL / a bookkeeping key). -/
theorem C16_saved_has_latest (low : String → String) (cfg : List (String × Msg)) (h : List Ev)
    (hv : Valid h) (hinj : LowerInj low (tagsOf h ++ saveAdds)) :
    chkSaved low h (savedView low (saveStep low (run low (Cache.init cfg) h).1).vip) = true := by
  have hi := (run_inv low h (Cache.init cfg) [] (CInv_init cfg) hv).2
  have hstrs := run_strs low h (Cache.init cfg) hv
  have hkeys := run_keys low h (Cache.init cfg)
  generalize (run low (Cache.init cfg) h).1 = c at *
  generalize pushLive [] (run low (Cache.init cfg) h).2 = rl at *
  unfold chkSaved
  rw [List.all_eq_true]
  intro t ht
  by_cases hp : persistent low t = true
  · simp only [hp, Bool.not_true, Bool.false_or, beq_iff_eq]
    simp only [persistent, Bool.and_eq_true, bne_iff_ne, ne_eq, Bool.not_eq_true',
      List.contains_eq_mem, decide_eq_false_iff_not] at hp
    obtain ⟨⟨⟨hsa, hnd⟩, hns⟩, hadd⟩ := hp
    obtain ⟨m, hm⟩ := lastUpd_of_mem h t ht
    have hs : c.strs.lookup t = some m := by rw [hstrs t hnd hsa, hm]
    obtain ⟨hk, _, _⟩ := hi.str_keys t m hs
    have htl : t ∈ tagsOf h ++ saveAdds := List.mem_append_left _ ht
    -- the key set of the save, and injectivity of `low` on it
    have hmem : ∀ k, k ∈ saveAdds.foldl insertKey c.keys → k ∈ tagsOf h ++ saveAdds := by
      intro k hk'
      rcases (mem_foldl_insertKey saveAdds c.keys k).mp hk' with h1 | h1
      · exact List.mem_append_right _ h1
      · rcases hkeys k h1 with h2 | h2 | h2
        · simp [Cache.init] at h2
        · exact List.mem_append_left _ h2
        · exact List.mem_append_right _ h2
    have hvip : (saveStep low c).vip.lookup (low t) = some m := by
      simp only [saveStep]
      rw [foldl_vipSet_hit low c t _ c.vip ((mem_foldl_insertKey saveAdds c.keys t).mpr (Or.inr hk))
        (fun k hk' heq => hinj k (hmem k hk') t htl heq) (by simpa using hns)]
      simp [savedVal, hadd, strOf, hs]
    rw [hm]
    unfold savedView
    rw [lookup_filter_key (fun k => !(saveAdds.map low).contains k), lookup_dedupKeys]
    have hnot : low t ∉ saveAdds.map low := by
      simp only [List.mem_map, not_exists, not_and]
      intro a ha heq
      have := hinj a (List.mem_append_right _ ha) t htl heq
      subst this; exact hadd ha
    have hc : (saveAdds.map low).contains (low t) = false := by simpa using hnot
    simp only [hc, Bool.not_false, if_true, List.not_mem_nil, if_false]
    exact hvip
  · have hp' : persistent low t = false := by simpa using hp
    simp [hp']

/-- non-vacuity of the hypotheses (`low := id`; the real tags are all upper case and distinct, which the
driver re-checks with `String.toLower` on every generated history) -/
example : Valid [.upd "STATUS" "1", .upd "ALIVE" "2", .save, .upd "STATUS" "3"] ∧
    LowerInj id (tagsOf [.upd "STATUS" "1", .upd "ALIVE" "2", .save, .upd "STATUS" "3"] ++ saveAdds) ∧
    savedView id (saveStep id (run id (Cache.init [("old", "9")])
      [.upd "STATUS" "1", .upd "ALIVE" "2", .save, .upd "STATUS" "3"]).1).vip
      = [("STATUS", "3"), ("ALIVE", "2"), ("old", "9")] := by
  refine ⟨by simp [Valid], ?_, by decide⟩
  intro a ha b hb hab
  exact hab

/-! ### the delayed save: nothing stays unsaved once the updater is quiet

`pending` = the delayed-save timer is armed.  Every change of a topic that is not on the no-save list
arms it (whatever happened to other topics in the same debounce window — e.g. another topic changing
and returning to its saved value), and only a save disarms it.  So whenever no save is pending, viper's
settings (= the file the last save wrote) already hold the latest value of EVERY persistent topic. -/

/-- viper agrees with the cache on every persistent key, unless a save is pending -/
def Quiet (low : String → String) (c : Cache) : Prop :=
  c.pending = true ∨ ∀ k, k ∈ c.keys → noSave.contains (low k) = false → k ∉ saveAdds →
    c.vip.lookup (low k) = some (strOf c.strs k)

def evTagIn (T : List Tag) : Ev → Prop
  | .upd t _ => t ∈ T
  | .save => True

theorem step_quiet (low : String → String) (T : List Tag) (hinj : LowerInj low T)
    (hadds : ∀ a, a ∈ saveAdds → a ∈ T) (c : Cache) (e : Ev) (hk : ∀ k, k ∈ c.keys → k ∈ T)
    (he : evTagIn T e) (hq : Quiet low c) :
    Quiet low (step low c e).1 ∧ ∀ k, k ∈ (step low c e).1.keys → k ∈ T := by
  cases e with
  | save =>
    have hk' : ∀ k, k ∈ saveAdds.foldl insertKey c.keys → k ∈ T := by
      intro k hkm
      rcases (mem_foldl_insertKey saveAdds c.keys k).mp hkm with h1 | h1
      · exact hadds k h1
      · exact hk k h1
    refine ⟨Or.inr ?_, ?_⟩
    · intro k hkm hns hadd
      simp only [step, saveStep] at hkm ⊢
      rw [foldl_vipSet_hit low c k _ c.vip hkm
        (fun k' hk'm heq => hinj k' (hk' k' hk'm) k (hk' k hkm) heq) hns]
      simp [savedVal, hadd]
    · intro k hkm
      simp only [step, saveStep] at hkm
      exact hk' k hkm
  | upd t m =>
    have ht : t ∈ T := he
    simp only [step]
    split
    · exact ⟨hq, hk⟩
    · split
      · exact ⟨hq, hk⟩
      · split
        · -- a changed value is stored
          refine ⟨?_, ?_⟩
          · by_cases hp : c.pending = true
            · left; simp [hp]
            · by_cases hns : noSave.contains (low t) = true
              · rcases hq with hq | hq
                · exact absurd hq hp
                · right
                  intro k hkm hnsk hadd
                  have hkt : k ≠ t := by
                    rintro rfl; rw [hns] at hnsk; cases hnsk
                  have hkc : k ∈ c.keys := by
                    rcases (mem_insertKey c.keys t k).mp hkm with h1 | h1
                    · exact absurd h1 hkt
                    · exact h1
                  have := hq k hkc hnsk hadd
                  simp only [strOf, lookup_cons_eq, if_neg hkt] at this ⊢
                  exact this
              · left
                have hns' : low t ∉ noSave := by simpa using hns
                simp [hns']
          · intro k hkm
            rcases (mem_insertKey c.keys t k).mp hkm with h1 | h1
            · rw [h1]; exact ht
            · exact hk k h1
        · exact ⟨hq, hk⟩

def evsIn (T : List Tag) : List Ev → Prop
  | [] => True
  | e :: r => evTagIn T e ∧ evsIn T r

theorem evsIn_tagsOf (T : List Tag) (h : List Ev) (hT : ∀ t, t ∈ tagsOf h → t ∈ T) : evsIn T h := by
  induction h with
  | nil => trivial
  | cons e r ih =>
    cases e with
    | save => exact ⟨trivial, ih (by simpa [tagsOf] using hT)⟩
    | upd t m =>
      exact ⟨hT t (by simp [tagsOf]), ih (fun x hx => hT x (by simp [tagsOf, hx]))⟩

theorem run_quiet (low : String → String) (T : List Tag) (hinj : LowerInj low T)
    (hadds : ∀ a, a ∈ saveAdds → a ∈ T) (h : List Ev) : ∀ (c : Cache), (∀ k, k ∈ c.keys → k ∈ T) →
    evsIn T h → Quiet low c → Quiet low (run low c h).1 := by
  induction h with
  | nil => intro c _ _ hq; simpa [run] using hq
  | cons e r ih =>
    intro c hk he hq
    obtain ⟨h1, h2⟩ := step_quiet low T hinj hadds c e hk he.1 hq
    simp only [run]
    exact ih _ h2 he.2 h1

theorem savedView_lookup (low : String → String) (vip : List (String × Msg)) (x : String)
    (hnot : x ∉ saveAdds.map low) : (savedView low vip).lookup x = vip.lookup x := by
  unfold savedView
  rw [lookup_filter_key (fun k => !(saveAdds.map low).contains k), lookup_dedupKeys]
  have hc : (saveAdds.map low).contains x = false := by simpa using hnot
  simp only [hc, Bool.not_false, if_true, List.not_mem_nil, if_false]

/-- **Once no save is pending, the saved settings hold the latest value of every persistent topic** —
for every history of updates (several topics changing inside one debounce window, changes followed by a
return to the value already saved, repeats, no-save topics) and saves at any points. -/
theorem C16_saved_when_quiet (low : String → String) (cfg : List (String × Msg)) (h : List Ev)
    (hv : Valid h) (hinj : LowerInj low (tagsOf h ++ saveAdds))
    (hp : (run low (Cache.init cfg) h).1.pending = false) :
    chkSaved low h (savedView low (run low (Cache.init cfg) h).1.vip) = true := by
  have hi := (run_inv low h (Cache.init cfg) [] (CInv_init cfg) hv).2
  have hstrs := run_strs low h (Cache.init cfg) hv
  have hq := run_quiet low (tagsOf h ++ saveAdds) hinj (fun a ha => List.mem_append_right _ ha) h
    (Cache.init cfg) (by simp [Cache.init])
    (evsIn_tagsOf _ h (fun t ht => List.mem_append_left _ ht)) (Or.inl rfl)
  generalize (run low (Cache.init cfg) h).1 = c at *
  generalize pushLive [] (run low (Cache.init cfg) h).2 = rl at *
  rcases hq with hq | hq
  · rw [hp] at hq; cases hq
  unfold chkSaved
  rw [List.all_eq_true]
  intro t ht
  by_cases hpers : persistent low t = true
  · simp only [hpers, Bool.not_true, Bool.false_or, beq_iff_eq]
    simp only [persistent, Bool.and_eq_true, bne_iff_ne, ne_eq, Bool.not_eq_true',
      List.contains_eq_mem, decide_eq_false_iff_not] at hpers
    obtain ⟨⟨⟨hsa, hnd⟩, hns⟩, hadd⟩ := hpers
    obtain ⟨m, hm⟩ := lastUpd_of_mem h t ht
    have hs : c.strs.lookup t = some m := by rw [hstrs t hnd hsa, hm]
    obtain ⟨hk, _, _⟩ := hi.str_keys t m hs
    have htl : t ∈ tagsOf h ++ saveAdds := List.mem_append_left _ ht
    have hnot : low t ∉ saveAdds.map low := by
      simp only [List.mem_map, not_exists, not_and]
      intro a ha heq
      have := hinj a (List.mem_append_right _ ha) t htl heq
      subst this; exact hadd ha
    rw [savedView_lookup low c.vip (low t) hnot, hq t hk (by simpa using hns) hadd, hm]
    simp [strOf, hs]
  · have hp' : persistent low t = false := by simpa using hpers
    simp [hp']

/-- The scenario of a save window in which one topic changes for good and another changes away and back
to its saved value: the model still has a save pending (so the quiet state is only reached through a
save that writes the first topic's new value), and after that save the file has both latest values. -/
example :
    (run id (Cache.init []) [.upd "MIX" "a", .upd "STATUS" "c", .save,
      .upd "MIX" "b", .upd "STATUS" "d", .upd "STATUS" "c"]).1.pending = true ∧
    (run id (Cache.init []) [.upd "MIX" "a", .upd "STATUS" "c", .save,
      .upd "MIX" "b", .upd "STATUS" "d", .upd "STATUS" "c", .save]).1.pending = false ∧
    savedView id (run id (Cache.init []) [.upd "MIX" "a", .upd "STATUS" "c", .save,
      .upd "MIX" "b", .upd "STATUS" "d", .upd "STATUS" "c", .save]).1.vip
      = [("MIX", "b"), ("STATUS", "c")] := by decide

/-! ### record lengths at start-up -/

/-- every legal pair of record lengths (what `ConfigurePulseLengths` accepts, incl. the boundary
`nsamp = npre + 1`) passes the start-up's defaulting unchanged -/
theorem C16_lengths_legal_restored (npre nsamp : Int) (h : legalLengths npre nsamp = true) :
    sanitizeLengths npre nsamp = (npre, nsamp) := by
  simp only [legalLengths, Bool.and_eq_true, decide_eq_true_eq] at h
  unfold sanitizeLengths
  have h1 : ¬ npre ≤ 0 := by omega
  simp only [h1, if_false]
  have h2 : ¬ nsamp ≤ npre := by omega
  simp [h2]

/-- whatever was saved, the lengths used after start-up are legal, and defaulting them again changes nothing -/
theorem C16_lengths_sanitized_legal (npre nsamp : Int) :
    legalLengths (sanitizeLengths npre nsamp).1 (sanitizeLengths npre nsamp).2 = true := by
  unfold sanitizeLengths legalLengths
  simp only [Bool.and_eq_true, decide_eq_true_eq]
  by_cases h1 : npre ≤ 0
  · simp only [h1, if_true]
    by_cases h2 : nsamp ≤ 400 <;> simp only [h2, if_true, if_false] <;> omega
  · simp only [h1, if_false]
    by_cases h2 : nsamp ≤ npre <;> simp only [h2, if_true, if_false] <;> omega

example : sanitizeLengths 500 501 = (500, 501) ∧ sanitizeLengths 3 4 = (3, 4) ∧
    sanitizeLengths 0 0 = (400, 800) ∧ sanitizeLengths 500 500 = (500, 1000) ∧ sanitizeLengths (-5) 100 = (400, 800) := by decide

/-! ### a save whose write of the temporary file fails -/

/-- A failed write of the temporary file aborts the save: the standard file and the backup are exactly
what they were (only the temporary file is left created/truncated/partial). -/
theorem C16_failed_write_keeps_old (fs : FS) (c : Content) (j : Nat) :
    (failRun c saveOps fs 0 j).main = fs.main ∧ (failRun c saveOps fs 0 j).bak = fs.bak := by
  obtain ⟨m, t, b⟩ := fs
  simp [failRun, saveOps, execFail, polOf, continues, FS.set]

/-- Whichever step is hit by the failure (only a write can fail this way) and however many bytes got
written: the next start-up finds the file and reads the complete old or the complete new version. -/
theorem C16_failed_write_safe (fs : FS) (old new : Content) (w j : Nat) (h : fs.main = some old) :
    chkCrash old new (startup (failRun new saveOps fs w j)) = true := by
  apply chkCrash_of_main
  obtain ⟨m, t, b⟩ := fs
  simp only at h; subst h
  rcases w with _ | _ | _ | _ | w <;> cases b <;>
    simp [failRun, saveOps, execFail, execOp, crashRun, polOf, continues, FS.get, FS.set]

example : failRun [2, 2] saveOps { main := some [1], tmp := some [9], bak := some [0] } 0 0
    = { main := some [1], tmp := some [], bak := some [0] } := by decide

/-! ### a source started while a save is in progress -/

theorem mem_tagsOf_of_lastUpd (h : List Ev) (t : Tag) (m : Msg) (hm : lastUpd h t = some m) : t ∈ tagsOf h := by
  induction h generalizing m with
  | nil => simp [lastUpd] at hm
  | cons e r ih =>
    cases e with
    | save => simpa [tagsOf] using ih m (by simpa [lastUpd] using hm)
    | upd t' m' =>
      simp only [lastUpd] at hm
      cases hl : lastUpd r t with
      | some x => simp [tagsOf, ih x hl]
      | none =>
        rw [hl] at hm
        by_cases ht : t' = t
        · simp [tagsOf, ht]
        · have : (t' == t) = false := by simpa using ht
          simp [this] at hm

/-- **A source started while a save is in progress (or when no save is pending) gets the saved trigger
settings**: it reads the latest TRIGGER message of the history — the start waits for the save, it never
skips the read. -/
theorem C16_start_restores_saved_triggers (low : String → String) (cfg : List (String × Msg)) (h : List Ev)
    (hv : Valid h) (hinj : LowerInj low (tagsOf h ++ saveAdds)) (m : Msg)
    (hm : lastUpd h "TRIGGER" = some m) (hns : noSave.contains (low "TRIGGER") = false) (inSave : Bool)
    (hq : inSave = true ∨ (run low (Cache.init cfg) h).1.pending = false) :
    startRestore low (run low (Cache.init cfg) h).1 inSave "TRIGGER" = some m := by
  have hmem := mem_tagsOf_of_lastUpd h "TRIGGER" m hm
  have hpers : persistent low "TRIGGER" = true := by
    simp only [persistent, hns, Bool.not_false, Bool.and_true, Bool.and_eq_true, bne_iff_ne, ne_eq,
      Bool.not_eq_true', List.contains_eq_mem, decide_eq_false_iff_not]
    decide
  have key : ∀ view, chkSaved low h view = true → view.lookup (low "TRIGGER") = some m := by
    intro view hc
    unfold chkSaved at hc
    rw [List.all_eq_true] at hc
    have := hc "TRIGGER" hmem
    simp only [hpers, Bool.not_true, Bool.false_or, beq_iff_eq] at this
    rw [this, hm]
  unfold startRestore
  cases inSave with
  | true => exact key _ (C16_saved_has_latest low cfg h hv hinj)
  | false =>
    rcases hq with hq | hq
    · cases hq
    · exact key _ (C16_saved_when_quiet low cfg h hv hinj hq)

end DastardV.C16
