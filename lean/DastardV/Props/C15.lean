/-
C15 — property theorems for the packet model (`Model/C15.lean`).

* `C15_accessors_safe`      : every byte string that `ReadPacket` accepts yields a packet on which no
                              accessor panics and the reported sizes are mutually consistent
                              (the decidable oracle `accOK`, which the driver also evaluates on the
                              real code's output, holds for every choice of accessor arguments).
* `C15_consumes_le_declared`: decoding never consumes more bytes than the input holds, nor more than the
                              header declares (at least the 16-byte fixed header).
* `C15_roundtrip`           : for every packet built through the public constructors whose shape the
                              wire format can carry, `Bytes()` succeeds and decoding its result consumes
                              it entirely and reproduces version, source id, sequence number, channel
                              offset, shape, payload samples and timestamp counter (oracle `rtOK`).
There is no bound on the length of the byte string, the number of TLVs, dims or samples.
Helper lemmas: `Lemmas/C15Bytes`, `C15Dec`, `C15Acc`, `C15Enc`, `C15Rt`.
-/
import DastardV.Lemmas.C15Rt
namespace DastardV.C15

/-- Decoding is total by construction (`decodeC` is a total function into `Except`); whenever it
accepts, the accessor oracle holds for all accessor arguments. -/
theorem C15_accessors_safe (bs : List Nat) (hb : IsBytes bs) (p : Packet) (n : Nat)
    (h : decodeC bs = (.ok p, n)) (reads : List Int) (pseq : Nat) (pn : Int) :
    accOK (declared bs) reads pseq pn (observe p n reads pseq pn) = true := by
  obtain ⟨inv, hn, hle, _⟩ := decodeC_ok bs p n h hb
  exact accOK_of_decInv p _ _ n inv hn hle reads pseq pn

/-- The same, spelled out without the oracle: nothing panics. -/
theorem C15_accessors_total (bs : List Nat) (hb : IsBytes bs) (p : Packet) (n : Nat)
    (h : decodeC bs = (.ok p, n)) :
    (frames p).isOk = true ∧ (channelInfo p).isOk = true ∧ (∀ i, (readValue p i).isOk = true) ∧
    (∀ seq nchan, nchan ≠ 0 → (makePretend p seq nchan).isOk = true) ∧
    (frames (clearData p)).isOk = true ∧ (channelInfo (clearData p)).isOk = true ∧
    length p = (declared bs).1 + (declared bs).2 := by
  obtain ⟨inv, hn, hle, _⟩ := decodeC_ok bs p n h hb
  obtain ⟨F, N, hF, hC, hN1, hFN, _⟩ := frames_chan p _ _ inv
  refine ⟨by rw [hF]; rfl, by rw [hC]; rfl, ?_, ?_, rfl, rfl, ?_⟩
  · intro i
    obtain ⟨v, hv, _⟩ := readValue_spec p F N hF hN1 hFN i
    rw [hv]; rfl
  · intro seq nchan hne
    unfold makePretend
    cases hd : p.data with
    | none => rfl
    | raw _ => rfl
    | i16 xs => obtain ⟨ys, hy, _⟩ := pretendVals_spec xs nchan hne; simp only [hy]; rfl
    | i32 xs => obtain ⟨ys, hy, _⟩ := pretendVals_spec xs nchan hne; simp only [hy]; rfl
    | i64 xs => obtain ⟨ys, hy, _⟩ := pretendVals_spec xs nchan hne; simp only [hy]; rfl
  · exact inv.plen

theorem C15_consumes_le_declared (bs : List Nat) :
    (decodeC bs).2 ≤ bs.length ∧
    (decodeC bs).2 ≤ max 16 ((declared bs).1 + (declared bs).2) ∧
    (∀ p, IsBytes bs → (decodeC bs).1 = .ok p →
      (decodeC bs).2 ≤ (declared bs).1 + (declared bs).2 ∧
      (decodeC bs).2 = (declared bs).1 + p.data.len * p.data.wsize) := by
  refine ⟨(decodeC_consumed bs).1, (decodeC_consumed bs).2, ?_⟩
  intro p hb hp
  have h : decodeC bs = (.ok p, (decodeC bs).2) := by rw [← hp]
  obtain ⟨_, hn, hle, _⟩ := decodeC_ok bs p _ h hb
  exact ⟨hle, hn⟩

theorem rtOK_of_fields (p q : Packet) (n : Nat) (reads : List Int) (pseq : Nat) (pn : Int)
    (h1 : q.version = p.version) (h2 : q.src = p.src) (h3 : q.seq = p.seq) (h4 : q.offset = p.offset)
    (h5 : q.shape = p.shape.map (·.filter (· > 0))) (h6 : q.data.vals = p.data.vals)
    (h7 : p.data.len = 0 ∨ q.data.kind = p.data.kind) (h8 : tsCounter q = tsCounter p) :
    rtOK (summarize p) n (observe q n reads pseq pn) = true := by
  have hci : ∃ k, channelInfo q = .ok (k, (p.offset : Int)) := by
    unfold channelInfo; rw [h4]; cases q.shape <;> exact ⟨_, rfl⟩
  obtain ⟨k, hk⟩ := hci
  have oci : (observe q n reads pseq pn).ci = .ok (k, (p.offset : Int)) := hk
  simp only [rtOK, rtClauses, summarize, List.all_cons, List.all_nil, Bool.and_true, Bool.and_eq_true, oci]
  refine ⟨?_, ?_, ?_, ?_, ?_, ?_, ?_, ?_⟩
  · simp [observe, h1]
  · simp [observe, h2]
  · simp [observe, h3]
  · simp
  · simp only [observe, h5]; exact beq_self_eq_true _
  · simp only [observe, samples, h6, beq_self_eq_true, true_and, Bool.or_eq_true, beq_iff_eq]
    exact h7
  · simp only [observe, h8]; exact beq_self_eq_true _
  · simp [observe]

/-- Encode → decode reproduces the packet, for every constructible packet whose shape is carriable
(`WF`: a positive size exists and the positive sizes multiply to at most 65535; non-positive sizes
are padding on the wire and are dropped). -/
theorem C15_roundtrip (p : Packet) (hb : Built p) (hwf : WF p) :
    ∃ bs q, encode p = .ok bs ∧ decodeC bs = (.ok q, bs.length) ∧
      ∀ reads pseq pn, rtOK (summarize p) bs.length (observe q bs.length reads pseq pn) = true := by
  obtain ⟨bs, q, he, hd, h1, h2, h3, h4, h5, h6, h7, h8⟩ := roundtrip_good p (built_good p hb) hwf
  exact ⟨bs, q, he, hd, fun reads pseq pn => rtOK_of_fields p q _ reads pseq pn h1 h2 h3 h4 h5 h6 h7 h8⟩

/-- The same with the fields spelled out. -/
theorem C15_roundtrip_fields (p : Packet) (hb : Built p) (hwf : WF p) :
    ∃ bs q, encode p = .ok bs ∧ decodeC bs = (.ok q, bs.length) ∧
      q.version = p.version ∧ q.src = p.src ∧ q.seq = p.seq ∧ q.offset = p.offset ∧
      q.shape = p.shape.map (·.filter (· > 0)) ∧ q.data.vals = p.data.vals ∧
      (p.data.len = 0 ∨ q.data.kind = p.data.kind) ∧ tsCounter q = tsCounter p :=
  roundtrip_good p (built_good p hb) hwf

/-- When every size is positive the shape is reproduced exactly. -/
theorem C15_roundtrip_shape_exact (p : Packet) (hb : Built p) (hwf : WF p)
    (hpos : ∀ s, p.shape = some s → ∀ d ∈ s, 0 < d) :
    ∃ bs q, encode p = .ok bs ∧ decodeC bs = (.ok q, bs.length) ∧ q.shape = p.shape := by
  obtain ⟨bs, q, he, hd, _, _, _, _, h5, _⟩ := roundtrip_good p (built_good p hb) hwf
  refine ⟨bs, q, he, hd, ?_⟩
  rw [h5]
  cases hs : p.shape with
  | none => rfl
  | some s =>
    simp only [Option.map_some, Option.some.injEq]
    rw [List.filter_eq_self]
    intro d hd'
    simpa using hpos s hs d hd'

/-! ### Histories: one reused packet, several encodings

`encode` is a function of the packet alone, so an encoding cannot depend on what is encoded later; what has
to be shown is that every packet a history encodes — the reused packet at each `Bytes()` call and every
`MakePretendPacket` copy — is constructible, so that `C15_roundtrip` applies to each of them.  (At run time the
driver compares every slice the real `Bytes()` returned, looked at after the last step, with this.) -/

def ValidOp : Op → Prop
  | .setTs t _ => t < 18446744073709551616
  | .newData w dims vals => ValidData (buildData w vals) ∧ ValidDims dims
  | _ => True

def ValidStep : HStep → Prop
  | .op o => ValidOp o
  | .enc => True
  | .fill sq _ => sq < 4294967296

theorem buildData_typed (w : Nat) (vals : List Int) : (buildData w vals).typed = true := by
  unfold buildData; split
  · rfl
  · split <;> rfl

theorem stepOp_built (p p' : Packet) (o : Op) (hb : Built p) (hv : ValidOp o) (h : stepOp p o = .ok p') :
    Built p' := by
  cases o with
  | setTs t r =>
    simp only [stepOp, Except.ok.injEq] at h; subst h
    exact Built.setTs _ hb ⟨hv, Nat.zero_lt_succ _, Nat.zero_lt_succ _⟩
  | resetTs => simp only [stepOp, Except.ok.injEq] at h; subst h; exact Built.resetTs hb
  | clear => simp only [stepOp, Except.ok.injEq] at h; subst h; exact Built.clear hb
  | newData w dims vals => exact Built.data _ dims hb (buildData_typed w vals) hv.1 hv.2 h

theorem C15_history_built (steps : List HStep) (p : Packet) (i : Nat) (ps : List Packet) (hb : Built p)
    (hv : ∀ s ∈ steps, ValidStep s) (h : runHist p steps i = .ok ps) : ∀ q ∈ ps, Built q := by
  induction steps generalizing p i ps with
  | nil => simp only [runHist, Except.ok.injEq] at h; subst h; simp
  | cons st r ih =>
    have hr : ∀ s ∈ r, ValidStep s := fun s hs => hv s (by simp [hs])
    have hst : ValidStep st := hv st (by simp)
    cases st with
    | op o =>
      simp only [runHist] at h
      split at h
      · rename_i p' hp'
        exact ih p' (i + 1) ps (stepOp_built p p' o hb hst hp') hr h
      · cases h
    | enc =>
      simp only [runHist] at h
      split at h
      · rename_i l hl
        simp only [Except.ok.injEq] at h; subst h
        intro q hq
        simp only [List.mem_cons] at hq
        rcases hq with rfl | hq
        · exact hb
        · exact ih p (i + 1) l hb hr hl q hq
      · cases h
    | fill sq n =>
      simp only [runHist] at h
      split at h
      · cases h
      · rename_i q0 hq0
        split at h
        · rename_i l hl
          simp only [Except.ok.injEq] at h; subst h
          intro q hq
          simp only [List.mem_cons] at hq
          rcases hq with rfl | hq
          · exact Built.pretend sq n hb hst hq0
          · exact ih p (i + 1) l hb hr hl q hq
        · cases h

/-- every encoding produced in a history decodes back to the packet it was made from, whatever is encoded
after it -/
theorem C15_history_roundtrip (steps : List HStep) (p : Packet) (i : Nat) (ps : List Packet) (hb : Built p)
    (hv : ∀ s ∈ steps, ValidStep s) (h : runHist p steps i = .ok ps) (q : Packet) (hq : q ∈ ps) (hwf : WF q) :
    ∃ bs q', encode q = .ok bs ∧ decodeC bs = (.ok q', bs.length) ∧
      ∀ reads pseq pn, rtOK (summarize q) bs.length (observe q' bs.length reads pseq pn) = true :=
  C15_roundtrip q (C15_history_built steps p i ps hb hv h q hq) hwf

/-! ### Non-vacuity -/

/-- a valid datagram: version 3, header 40, payload 16, offset TLV (5), format "<h", shape [4], 8 samples -/
def sampleBytes : List Nat :=
  [3, 40, 0, 16, 0x81, 0x0b, 0, 0xff, 0, 0, 0, 9, 0, 0, 0, 100,
   0x23, 1, 0, 0, 0, 0, 0, 5, 0x21, 1, 0x3c, 0x68, 0, 0, 0, 0, 0x22, 1, 0, 4, 0, 0, 0, 0,
   1, 0, 2, 0, 3, 0, 4, 0, 5, 0, 6, 0, 7, 0, 0xff, 0xff]

example : IsBytes sampleBytes := by unfold IsBytes sampleBytes; decide

/-- the hypothesis of `C15_accessors_safe` is satisfiable: the sample decodes, to 2 frames of 4 channels -/
example : ∃ p, decodeC sampleBytes = (.ok p, 56) ∧ frames p = .ok 2 ∧ channelInfo p = .ok (4, 5) ∧
    readValue p 1 = .ok 2 ∧ p.data = .i16 [1, 2, 3, 4, 5, 6, 7, -1] := ⟨_, rfl, rfl, rfl, rfl, rfl⟩

/-- and decoding does reject: a shape TLV without a format TLV (the repaired defect) -/
example : (decodeC [3, 32, 0, 16, 0x81, 0x0b, 0, 0xff, 0, 0, 0, 9, 0, 0, 0, 100,
    0x23, 1, 0, 0, 0, 0, 0, 5, 0x22, 1, 0, 4, 0, 0, 0, 0, 1, 0, 2, 0]).1 = .error .bad := rfl

/-- the hypotheses of `C15_roundtrip` are satisfiable by an ordinary packet: 6 int16 samples, dims [2, 3],
a timestamp -/
example : ∃ p, Built p ∧ WF p ∧ p.data = .i16 [1, -2, 3, 4, -32768, 32767] ∧ p.seq = 0 := by
  refine ⟨_, Built.data (.i16 [1, -2, 3, 4, -32768, 32767]) [2, 3]
    (Built.setTs ⟨12345, 400, 1⟩ (Built.new 1 2 4294967295 (-1) (by decide) (by decide) (by decide))
      ⟨by decide, by decide, by decide⟩) rfl ?_ ?_ rfl, ?_, rfl, rfl⟩
  · intro x hx
    simp only [List.mem_cons, List.not_mem_nil, or_false] at hx
    rcases hx with rfl | rfl | rfl | rfl | rfl | rfl <;> (unfold InRange; decide)
  · intro d hd
    simp only [List.mem_cons, List.not_mem_nil, or_false] at hd
    rcases hd with rfl | rfl <;> decide
  · intro s hs
    cases hs
    decide

end DastardV.C15
