/-
C14 — property theorems for the message-layout model (`Model/C14.lean`).
Decoding any published message per the documented offsets recovers the record's fields.
-/
import DastardV.Model.C14
namespace DastardV.C14

theorem le_length (w n : Nat) : (le w n).length = w := by
  induction w generalizing n with
  | zero => rfl
  | succ w ih => simp [le, ih]

theorem unle_le (w n : Nat) : unle (le w n) = n % 256 ^ w := by
  induction w generalizing n with
  | zero => simp [le, unle, Nat.mod_one]
  | succ w ih =>
    simp only [le, unle, ih]
    rw [Nat.pow_succ', Nat.mod_mul]

/-- a field that starts at the head chunk -/
theorem field_here (w n : Nat) (rest : List Nat) : field (le w n ++ rest) 0 w = n % 256 ^ w := by
  unfold field
  rw [List.drop_zero, List.take_left' (le_length w n), unle_le]

theorem field_last (w n : Nat) : field (le w n) 0 w = n % 256 ^ w := by
  have := field_here w n []
  simpa using this

/-- skip one whole chunk that lies before the field -/
theorem field_skip (a x : Nat) (rest : List Nat) (off w : Nat) (h : a ≤ off) :
    field (le a x ++ rest) off w = field rest (off - a) w := by
  unfold field
  rw [List.drop_append, le_length, List.drop_of_length_le (by rw [le_length]; exact h)]
  rfl

theorem un16s_le16s (xs : List Nat) : un16s (le16s xs) = xs.map (· % 65536) := by
  induction xs with
  | nil => rfl
  | cons x xs ih =>
    simp only [le16s, le, List.cons_append, List.nil_append, un16s, ih, List.map_cons]
    congr 1
    omega

theorem le16s_length (xs : List Nat) : (le16s xs).length = 2 * xs.length := by
  induction xs with
  | nil => rfl
  | cons x xs ih => simp only [le16s, List.length_append, le_length, ih, List.length_cons]; omega

theorem le64s_length (xs : List Nat) : (le64s xs).length = 8 * xs.length := by
  induction xs with
  | nil => rfl
  | cons x xs ih => simp only [le64s, List.length_append, le_length, ih, List.length_cons]; omega

theorem un64s_le64s (xs : List Nat) (fuel : Nat) (hf : 8 * xs.length ≤ fuel) :
    un64s fuel (le64s xs) = xs.map (· % 2 ^ 64) := by
  induction xs generalizing fuel with
  | nil => cases fuel <;> simp [le64s, un64s]
  | cons x xs ih =>
    cases fuel with
    | zero => simp at hf
    | succ f =>
      have hlen : ¬ (le 8 x ++ le64s xs).length < 8 := by
        rw [List.length_append, le_length]; omega
      show un64s (f + 1) (le 8 x ++ le64s xs) = _
      rw [un64s, if_neg hlen, List.map_cons]
      rw [List.take_left' (le_length 8 x), List.drop_left' (le_length 8 x), unle_le,
        ih f (by simp only [List.length_cons] at hf; omega)]

/-- the record header is always 36 bytes -/
theorem hdr_len_36 (r : Rec) : (encRecord r).1.length = 36 := by
  simp only [encRecord, List.length_append, le_length]

/-- the summary header is always 48 bytes -/
theorem hdr_len_48 (r : Rec) : (encSummary r).1.length = 48 := by
  simp only [encSummary, List.length_append, le_length]

/-- the payload is exactly the record's samples (2 bytes each) / coefficients (8 bytes each) -/
theorem payload_len (r : Rec) :
    (encRecord r).2.length = 2 * r.data.length ∧ (encSummary r).2.length = 8 * r.coefBits.length :=
  ⟨le16s_length _, le64s_length _⟩

/-- the first two bytes of both messages are the little-endian channel number, so a
subscriber can filter per channel -/
theorem first_two_bytes_channel (r : Rec) :
    (encRecord r).1.take 2 = le 2 (twos 2 r.channel) ∧ (encSummary r).1.take 2 = le 2 (twos 2 r.channel) := by
  constructor
  · simp only [encRecord, List.append_assoc]
    exact List.take_left' (le_length _ _)
  · simp only [encSummary, List.append_assoc]
    exact List.take_left' (le_length _ _)

theorem twos_lt (w : Nat) (x : Int) : twos w x < 256 ^ w := by
  unfold twos
  have hpos : (0 : Int) < ((256 ^ w : Nat) : Int) := by
    exact_mod_cast Nat.pow_pos (n := w) (by decide : 0 < 256)
  have h1 := Int.emod_lt_of_pos x hpos
  have h0 := Int.emod_nonneg x (Int.ne_of_gt hpos)
  omega

theorem twos_mod (w : Nat) (x : Int) : twos w x % 256 ^ w = twos w x :=
  Nat.mod_eq_of_lt (twos_lt w x)

/-- **C14_record_roundtrip**: for every record (any channel, length, signedness, frame, time,
float bit patterns) decoding the published record message at the documented offsets recovers
exactly the record's fields. -/
theorem C14_record_roundtrip (r : Rec) :
    decRecord (encRecord r).1 (encRecord r).2 = some (expectRecord r) := by
  unfold decRecord
  rw [if_neg (by rw [hdr_len_36]; decide)]
  simp only [encRecord, List.append_assoc, expectRecord]
  simp only [field_here, field_last, field_skip, Nat.reduceLeDiff, Nat.reduceSub, twos_mod,
    un16s_le16s]
  cases r.signed <;> simp

/-- **C14_summary_roundtrip** -/
theorem C14_summary_roundtrip (r : Rec) :
    decSummary (encSummary r).1 (encSummary r).2 = some (expectSummary r) := by
  unfold decSummary
  rw [if_neg (by rw [hdr_len_48]; decide)]
  simp only [encSummary, List.append_assoc, expectSummary]
  simp only [field_here, field_last, field_skip, Nat.reduceLeDiff, Nat.reduceSub, twos_mod,
    un64s_le64s _ _ (Nat.le_of_eq (le64s_length _).symm)]
  simp

/-- in-range fields are recovered *exactly* (no reduction): channel 0..65535, non-negative
pre-trigger count below 2^32, 16-bit samples, and two's complement frame / time. -/
theorem C14_record_exact (r : Rec) (hc : 0 ≤ r.channel ∧ r.channel < 65536)
    (hp : 0 ≤ r.presamples ∧ r.presamples < 2 ^ 32) (hl : r.data.length < 2 ^ 32)
    (hd : ∀ x ∈ r.data, x < 65536) (hf : -(2 ^ 63) ≤ r.frame ∧ r.frame < 2 ^ 63) :
    ∃ m, decRecord (encRecord r).1 (encRecord r).2 = some m ∧
      (m.channel : Int) = r.channel ∧ m.version = 0 ∧ m.dtype = (if r.signed then 2 else 3) ∧
      (m.presamples : Int) = r.presamples ∧ m.nsamples = r.data.length ∧ m.samples = r.data ∧
      toInt64 m.frame = r.frame := by
  refine ⟨expectRecord r, C14_record_roundtrip r, ?_, rfl, rfl, ?_, ?_, ?_, ?_⟩
  · show ((twos 2 r.channel : Nat) : Int) = r.channel
    unfold twos
    have : ((256 ^ 2 : Nat) : Int) = 65536 := by decide
    rw [this]
    omega
  · show ((twos 4 r.presamples : Nat) : Int) = r.presamples
    unfold twos
    have : ((256 ^ 4 : Nat) : Int) = 4294967296 := by decide
    rw [this]
    omega
  · show r.data.length % 2 ^ 32 = r.data.length
    exact Nat.mod_eq_of_lt hl
  · show r.data.map (· % 65536) = r.data
    conv => rhs; rw [← List.map_id r.data]
    apply List.map_congr_left
    intro x hx
    exact Nat.mod_eq_of_lt (hd x hx)
  · show toInt64 (twos 8 r.frame) = r.frame
    unfold toInt64 twos
    have : ((256 ^ 8 : Nat) : Int) = 18446744073709551616 := by decide
    rw [this]
    split <;> omega
end DastardV.C14
