/-
C20 — property theorems for the side-file model (`Model/C20.lean`).

`RunFiles` of a finished run = content of its external-trigger file, its data-drop file and its
experiment-state file after the header lines.  Two kinds of statements:

* refinement: for EVERY history the model's closed files are exactly what the specification
  machine (`specRun`, the run-time oracle) demands (`C20_model_meets_spec`);
* segment form, without the machine: for every history `pre` that leaves writing inactive, every
  run `START; mid; STOP` (`mid` = any ops without a STOP) closes exactly one new set of files whose
  content is a function of `mid` alone (`C20_ext_exact`, `C20_drop_lines`, `C20_state_file`,
  `C20_fresh_after_restart`), and closed files never change afterwards (`C20_closed_files_frozen`).
-/
import DastardV.Model.C20
namespace DastardV.C20

/-! ### Well-formed states -/

/-- no run: nothing open, names cleared -/
def Closed (s : S) : Prop :=
  s.active = false ∧ s.extName = false ∧ s.ext = none ∧ s.drop = none ∧ s.st = none

/-- a run is active: names set, state file exists -/
def Open (s : S) : Prop := s.active = true ∧ s.extName = true ∧ s.st.isSome = true

def Wf (s : S) : Prop := Closed s ∨ Open s

theorem setLabel_isSome (st : Option (List Line)) (l : Line) : (setLabel st l).isSome = true := by
  cases st <;> rfl

theorem handleExt_fields (s : S) (e : List Int) :
    (handleExt s e).active = s.active ∧ (handleExt s e).extName = s.extName ∧
    (handleExt s e).drop = s.drop ∧ (handleExt s e).st = s.st ∧ (handleExt s e).done = s.done :=
  ⟨rfl, rfl, rfl, rfl, rfl⟩

theorem handleDrop_fields (s : S) (d f : Int) :
    (handleDrop s d f).active = s.active ∧ (handleDrop s d f).extName = s.extName ∧
    (handleDrop s d f).ext = s.ext ∧ (handleDrop s d f).st = s.st ∧ (handleDrop s d f).done = s.done := by
  unfold handleDrop
  split
  · split <;> exact ⟨rfl, rfl, rfl, rfl, rfl⟩
  · exact ⟨rfl, rfl, rfl, rfl, rfl⟩

/-- external-trigger content after a block, when the file name is set -/
theorem handleExt_open (s : S) (e : List Int) (h : s.extName = true) :
    contentOf (handleExt s e).ext = contentOf s.ext ++ e := by
  unfold handleExt
  cases hx : s.ext with
  | none =>
    cases e with
    | nil => simp [h, contentOf]
    | cons a as => simp [h, contentOf]
  | some c =>
    cases e with
    | nil => simp [contentOf]
    | cons a as => simp [contentOf]

theorem handleExt_closed (s : S) (e : List Int) (h : s.extName = false) (hx : s.ext = none) :
    (handleExt s e).ext = none := by
  unfold handleExt
  simp [h, hx]

theorem handleDrop_open (s : S) (d f : Int) (h : s.active = true) :
    contentOf (handleDrop s d f).drop = contentOf s.drop ++ (if d > 0 then [(f, d)] else []) := by
  unfold handleDrop
  by_cases hd : d > 0
  · simp only [hd, if_true, h]
    cases s.drop <;> simp [contentOf]
  · simp [hd]

theorem handleDrop_closed (s : S) (d f : Int) (h : s.active = false) : handleDrop s d f = s := by
  unfold handleDrop
  split
  · simp [h]
  · rfl

theorem wf_step (s : S) (op : Op) (h : Wf s) : Wf (step s op).1 := by
  cases op with
  | block e d f =>
    simp only [step]
    obtain ⟨a1, a2, a3, a4, _⟩ := handleDrop_fields (handleExt s e) d f
    obtain ⟨b1, b2, b3, b4, _⟩ := handleExt_fields s e
    cases h with
    | inl hc =>
      obtain ⟨c1, c2, c3, c4, c5⟩ := hc
      left
      have : handleDrop (handleExt s e) d f = handleExt s e := handleDrop_closed _ _ _ (by rw [b1, c1])
      rw [this]
      exact ⟨by rw [b1, c1], by rw [b2, c2], handleExt_closed s e c2 c3, by rw [b3, c4], by rw [b4, c5]⟩
    | inr ho =>
      obtain ⟨o1, o2, o3⟩ := ho
      right
      exact ⟨by rw [a1, b1, o1], by rw [a2, b2, o2], by rw [a4, b4, o3]⟩
  | req r valid =>
    simp only [step]
    generalize C06.classify r = k
    cases k with
    | pause => exact h
    | unpause lbl =>
      cases lbl with
      | none => exact h
      | some l =>
        simp only [stepReq]
        split
        · rename_i hh
          simp only [Bool.and_eq_true] at hh
          cases h with
          | inl hc => rw [hc.1] at hh; simp at hh
          | inr ho => right; exact ⟨ho.1, ho.2.1, setLabel_isSome _ _⟩
        · exact h
    | unpauseBad => exact h
    | invalid => exact h
    | stop => left; exact ⟨rfl, rfl, rfl, rfl, rfl⟩
    | start =>
      simp only [stepReq]
      split
      · exact h
      · right; exact ⟨rfl, rfl, setLabel_isSome _ _⟩
  | label l =>
    simp only [step]
    split
    · exact h
    · split
      · rename_i hh
        simp only [Bool.and_eq_true] at hh
        cases h with
        | inl hc => rw [hc.1] at hh; simp at hh
        | inr ho => right; exact ⟨ho.1, ho.2.1, setLabel_isSome _ _⟩
      · exact h
  | labelAt ts l =>
    simp only [step]
    split
    · rename_i hh
      simp only [Bool.and_eq_true] at hh
      cases h with
      | inl hc => rw [hc.1] at hh; simp at hh
      | inr ho => right; exact ⟨ho.1, ho.2.1, setLabel_isSome _ _⟩
    · exact h

theorem wf_init : Wf S.init := Or.inl ⟨rfl, rfl, rfl, rfl, rfl⟩

theorem wf_runOps (ops : List Op) : ∀ s, Wf s → Wf (runOps s ops) := by
  induction ops with
  | nil => intro s h; exact h
  | cons o os ih => intro s h; exact ih _ (wf_step s o h)

theorem closed_of_inactive (s : S) (h : Wf s) (ha : s.active = false) : Closed s := by
  cases h with
  | inl hc => exact hc
  | inr ho => rw [ho.1] at ha; cases ha

/-! ### Refinement: the model's closed files are what the specification machine demands -/

def Rel (s : S) (sp : Spec) : Prop :=
  s.done = sp.done ∧
  match sp.cur with
  | none => Closed s
  | some c => Open s ∧ contentOf s.ext = c.ext ∧ contentOf s.drop = c.drop ∧ s.st = some c.labels

theorem rel_label (s : S) (sp : Spec) (ts : Option Int) (l : Label) (h : Rel s sp) :
    ∃ sp', specLabel sp (ts, l) (if s.active && !C06.multiLine l then false else true) = .ok sp' ∧
      Rel (if s.active && !C06.multiLine l then { s with st := setLabel s.st (ts, l) } else s) sp' := by
  obtain ⟨hd, hc⟩ := h
  cases hcur : sp.cur with
  | none =>
    rw [hcur] at hc
    have : s.active = false := hc.1
    simp only [this, Bool.false_and, Bool.false_eq_true, if_false]
    exact ⟨sp, rfl, hd, by rw [hcur]; exact hc⟩
  | some c =>
    rw [hcur] at hc
    obtain ⟨ho, h1, h2, h3⟩ := hc
    by_cases hm : (s.active && !C06.multiLine l) = true
    · simp only [hm, if_true]
      refine ⟨{ sp with cur := some { c with labels := c.labels ++ [(ts, l)] } }, by simp [specLabel, hcur], hd, ?_⟩
      refine ⟨⟨ho.1, ho.2.1, setLabel_isSome _ _⟩, h1, h2, ?_⟩
      show setLabel s.st (ts, l) = _
      rw [h3]; rfl
    · simp only [hm]
      exact ⟨sp, rfl, hd, by rw [hcur]; exact ⟨ho, h1, h2, h3⟩⟩

theorem rel_step (s : S) (sp : Spec) (op : Op) (h : Rel s sp) :
    ∃ sp', specStep sp op (step s op).2 = .ok sp' ∧ Rel (step s op).1 sp' := by
  cases op with
  | block e d f =>
    obtain ⟨hd, hc⟩ := h
    simp only [step, specStep]
    obtain ⟨a1, a2, a3, a4, a5⟩ := handleDrop_fields (handleExt s e) d f
    obtain ⟨b1, b2, b3, b4, b5⟩ := handleExt_fields s e
    cases hcur : sp.cur with
    | none =>
      rw [hcur] at hc
      obtain ⟨c1, c2, c3, c4, c5⟩ := hc
      refine ⟨sp, rfl, ?_, ?_⟩
      · rw [a5, b5, hd]
      · rw [hcur]
        have : handleDrop (handleExt s e) d f = handleExt s e := handleDrop_closed _ _ _ (by rw [b1, c1])
        rw [this]
        exact ⟨by rw [b1, c1], by rw [b2, c2], handleExt_closed s e c2 c3, by rw [b3, c4], by rw [b4, c5]⟩
    | some c =>
      rw [hcur] at hc
      obtain ⟨ho, h1, h2, h3⟩ := hc
      refine ⟨_, rfl, ?_, ?_⟩
      · show (handleDrop (handleExt s e) d f).done = sp.done
        rw [a5, b5, hd]
      · refine ⟨⟨by rw [a1, b1, ho.1], by rw [a2, b2, ho.2.1], by rw [a4, b4, ho.2.2]⟩, ?_, ?_, ?_⟩
        · show contentOf (handleDrop (handleExt s e) d f).ext = c.ext ++ e
          rw [a3, handleExt_open s e ho.2.1, h1]
        · show contentOf (handleDrop (handleExt s e) d f).drop = (if d > 0 then c.drop ++ [(f, d)] else c.drop)
          rw [handleDrop_open _ d f (by rw [b1, ho.1]), b3, h2]
          split <;> simp
        · show (handleDrop (handleExt s e) d f).st = some c.labels
          rw [a4, b4, h3]
  | req r valid =>
    simp only [step, specStep]
    generalize C06.classify r = k
    cases k with
    | pause => exact ⟨sp, rfl, h⟩
    | unpauseBad => exact ⟨sp, rfl, h⟩
    | invalid => exact ⟨sp, rfl, h⟩
    | unpause lbl =>
      cases lbl with
      | none => exact ⟨sp, rfl, h⟩
      | some l =>
        simp only [stepReq, specReq]
        have := rel_label s sp none l h
        by_cases hm : (s.active && !C06.multiLine l) = true
        · simp only [hm, if_true] at this ⊢; exact this
        · simp only [hm] at this ⊢; exact this
    | stop =>
      simp only [stepReq, specReq]
      obtain ⟨hd, hc⟩ := h
      cases hcur : sp.cur with
      | none =>
        rw [hcur] at hc
        refine ⟨sp, rfl, ?_, ?_⟩
        · simp [stop, hc.1, hd]
        · rw [hcur]; exact ⟨rfl, rfl, rfl, rfl, rfl⟩
      | some c =>
        rw [hcur] at hc
        obtain ⟨ho, h1, h2, h3⟩ := hc
        refine ⟨_, rfl, ?_, ⟨rfl, rfl, rfl, rfl, rfl⟩⟩
        simp [stop, ho.1, hd, h1, h2, h3]
    | start =>
      simp only [stepReq, specReq]
      obtain ⟨hd, hc⟩ := h
      cases hcur : sp.cur with
      | none =>
        rw [hcur] at hc
        obtain ⟨c1, c2, c3, c4, c5⟩ := hc
        by_cases hv : valid = true
        · simp only [hv, c1, Bool.not_true, Bool.or_false, Bool.false_eq_true, if_false]
          refine ⟨_, rfl, hd, ⟨rfl, rfl, setLabel_isSome _ _⟩, ?_, ?_, ?_⟩
          · show contentOf s.ext = []; rw [c3]; rfl
          · show contentOf s.drop = []; rw [c4]; rfl
          · show setLabel s.st lSTART = some [lSTART]; rw [c5]; rfl
        · have hv' : valid = false := by simpa using hv
          simp only [hv', Bool.not_false, Bool.true_or, if_true]
          exact ⟨sp, rfl, hd, by rw [hcur]; exact ⟨c1, c2, c3, c4, c5⟩⟩
      | some c =>
        rw [hcur] at hc
        have ha : s.active = true := hc.1.1
        simp only [ha, Bool.or_true, if_true]
        exact ⟨sp, rfl, hd, by rw [hcur]; exact hc⟩
  | label l =>
    simp only [step, specStep]
    by_cases he : l.isEmpty = true
    · simp only [he, if_true]
      exact ⟨sp, by simp [specLabel], h⟩
    · simp only [he, Bool.false_eq_true, if_false]
      have := rel_label s sp none l h
      by_cases hm : (s.active && !C06.multiLine l) = true
      · simp only [hm, if_true] at this ⊢; exact this
      · simp only [hm] at this ⊢; exact this
  | labelAt ts l =>
    simp only [step, specStep]
    have := rel_label s sp (some ts) l h
    by_cases hm : (s.active && !C06.multiLine l) = true
    · simp only [hm, if_true] at this ⊢; exact this
    · simp only [hm] at this ⊢; exact this

theorem rel_run (ops : List Op) : ∀ (s : S) (sp : Spec), Rel s sp →
    ∃ sp', specRun sp ops (runErrs s ops) = .ok sp' ∧ Rel (runOps s ops) sp' := by
  induction ops with
  | nil => intro s sp h; exact ⟨sp, rfl, h⟩
  | cons o os ih =>
    intro s sp h
    obtain ⟨sp1, h1, hr1⟩ := rel_step s sp o h
    simp only [runErrs, specRun, runOps, h1]
    exact ih _ _ hr1

/-- **C20_model_meets_spec**: for EVERY history (blocks with arbitrary external-trigger lists, drop
counts and first frames; arbitrary request strings with valid or invalid START parameters; arbitrary
labels) the specification machine accepts the model's error flags and the files closed by the model
are exactly the files it demands: the run-time oracle `chkC20` holds of the model. -/
theorem C20_model_meets_spec (ops : List Op) :
    chkC20 ops (runErrs S.init ops) (runOps S.init ops).done = true := by
  obtain ⟨sp, h1, h2⟩ := rel_run ops S.init Spec.init ⟨rfl, rfl, rfl, rfl, rfl, rfl⟩
  unfold chkC20
  rw [h1]
  simp [h2.1]

/-! ### Segment form -/

/-- counts delivered by the blocks of a segment, in order -/
def extOf : List Op → List Int
  | [] => []
  | .block e _ _ :: os => e ++ extOf os
  | _ :: os => extOf os

/-- one `(first frame, dropped)` entry per block of the segment that reports dropped frames -/
def dropOf : List Op → List (Int × Int)
  | [] => []
  | .block _ d f :: os => (if d > 0 then [(f, d)] else []) ++ dropOf os
  | _ :: os => dropOf os

/-- the label carried by a request that `SetExperimentStateLabel` accepts during a run -/
def acceptedLabel : Op → List Line
  | .label l => if l.isEmpty || C06.multiLine l then [] else [(none, l)]
  | .labelAt ts l => if C06.multiLine l then [] else [(some ts, l)]
  | .req r _ =>
    match C06.classify r with
    | .unpause (some l) => if C06.multiLine l then [] else [(none, l)]
    | _ => []
  | .block .. => []

def labelsOf : List Op → List Line
  | [] => []
  | o :: os => acceptedLabel o ++ labelsOf os

def NoStop (ops : List Op) : Prop := ∀ o ∈ ops, isStopOp o = false

/-- one op inside a run -/
theorem open_step (s : S) (ls : List Line) (ho : Open s) (hst : s.st = some ls) (op : Op)
    (hn : isStopOp op = false) :
    Open (step s op).1 ∧ (step s op).1.done = s.done ∧
      contentOf (step s op).1.ext = contentOf s.ext ++ extOf [op] ∧
      contentOf (step s op).1.drop = contentOf s.drop ++ dropOf [op] ∧
      (step s op).1.st = some (ls ++ acceptedLabel op) := by
  obtain ⟨o1, o2, o3⟩ := ho
  cases op with
  | block e d f =>
    simp only [step, extOf, dropOf, acceptedLabel, List.append_nil]
    obtain ⟨a1, a2, a3, a4, a5⟩ := handleDrop_fields (handleExt s e) d f
    obtain ⟨b1, b2, b3, b4, b5⟩ := handleExt_fields s e
    refine ⟨⟨by rw [a1, b1, o1], by rw [a2, b2, o2], by rw [a4, b4, o3]⟩, by rw [a5, b5], ?_, ?_, by rw [a4, b4, hst]⟩
    · rw [a3, handleExt_open s e o2]
    · rw [handleDrop_open _ d f (by rw [b1, o1]), b3]
  | req r valid =>
    have e1 : extOf [Op.req r valid] = [] := rfl
    have e2 : dropOf [Op.req r valid] = [] := rfl
    rw [e1, e2, List.append_nil, List.append_nil]
    simp only [step, acceptedLabel, isStopOp] at hn ⊢
    generalize C06.classify r = k at hn ⊢
    have same : Open s ∧ s.done = s.done ∧ contentOf s.ext = contentOf s.ext ∧
        contentOf s.drop = contentOf s.drop ∧ s.st = some (ls ++ []) :=
      ⟨⟨o1, o2, o3⟩, rfl, rfl, rfl, by rw [hst, List.append_nil]⟩
    cases k with
    | pause => exact same
    | unpauseBad => exact same
    | invalid => exact same
    | stop => simp at hn
    | start =>
      simp only [stepReq, o1, Bool.or_true, if_true]
      exact ⟨same.1, trivial, trivial, trivial, same.2.2.2.2⟩
    | unpause lbl =>
      cases lbl with
      | none => exact same
      | some l =>
        simp only [stepReq, o1, Bool.true_and]
        cases hm : C06.multiLine l with
        | true =>
          simp only [Bool.not_true, Bool.false_eq_true, if_false, if_true]
          exact ⟨same.1, trivial, trivial, trivial, same.2.2.2.2⟩
        | false =>
          simp only [Bool.not_false, if_true, Bool.false_eq_true, if_false]
          exact ⟨⟨rfl, o2, setLabel_isSome _ _⟩, trivial, trivial, trivial, by rw [hst]; rfl⟩
  | label l =>
    have e1 : extOf [Op.label l] = [] := rfl
    have e2 : dropOf [Op.label l] = [] := rfl
    rw [e1, e2, List.append_nil, List.append_nil]
    have same : Open s ∧ s.done = s.done ∧ contentOf s.ext = contentOf s.ext ∧
        contentOf s.drop = contentOf s.drop ∧ s.st = some (ls ++ []) :=
      ⟨⟨o1, o2, o3⟩, rfl, rfl, rfl, by rw [hst, List.append_nil]⟩
    simp only [step, acceptedLabel]
    cases he : l.isEmpty with
    | true => simp only [if_true, Bool.true_or]; exact ⟨same.1, trivial, trivial, trivial, same.2.2.2.2⟩
    | false =>
      simp only [Bool.false_eq_true, if_false, o1, Bool.true_and, Bool.false_or]
      cases hm : C06.multiLine l with
      | true =>
        simp only [Bool.not_true, Bool.false_eq_true, if_false, if_true]
        exact ⟨same.1, trivial, trivial, trivial, same.2.2.2.2⟩
      | false =>
        simp only [Bool.not_false, if_true, Bool.false_eq_true, if_false]
        exact ⟨⟨rfl, o2, setLabel_isSome _ _⟩, trivial, trivial, trivial, by rw [hst]; rfl⟩
  | labelAt ts l =>
    have e1 : extOf [Op.labelAt ts l] = [] := rfl
    have e2 : dropOf [Op.labelAt ts l] = [] := rfl
    rw [e1, e2, List.append_nil, List.append_nil]
    have same : Open s ∧ s.done = s.done ∧ contentOf s.ext = contentOf s.ext ∧
        contentOf s.drop = contentOf s.drop ∧ s.st = some (ls ++ []) :=
      ⟨⟨o1, o2, o3⟩, rfl, rfl, rfl, by rw [hst, List.append_nil]⟩
    simp only [step, acceptedLabel, o1, Bool.true_and]
    cases hm : C06.multiLine l with
    | true =>
      simp only [Bool.not_true, Bool.false_eq_true, if_false, if_true]
      exact ⟨same.1, trivial, trivial, trivial, same.2.2.2.2⟩
    | false =>
      simp only [Bool.not_false, if_true, Bool.false_eq_true, if_false]
      exact ⟨⟨rfl, o2, setLabel_isSome _ _⟩, trivial, trivial, trivial, by rw [hst]; rfl⟩

theorem extOf_cons (o : Op) (os : List Op) : extOf (o :: os) = extOf [o] ++ extOf os := by
  cases o <;> simp [extOf]

theorem dropOf_cons (o : Op) (os : List Op) : dropOf (o :: os) = dropOf [o] ++ dropOf os := by
  cases o <;> simp [dropOf]

/-- a whole segment inside a run -/
theorem open_segment (mid : List Op) : ∀ (s : S) (ls : List Line), Open s → s.st = some ls → NoStop mid →
    Open (runOps s mid) ∧ (runOps s mid).done = s.done ∧
      contentOf (runOps s mid).ext = contentOf s.ext ++ extOf mid ∧
      contentOf (runOps s mid).drop = contentOf s.drop ++ dropOf mid ∧
      (runOps s mid).st = some (ls ++ labelsOf mid) := by
  induction mid with
  | nil => intro s ls ho hst _; simp [runOps, extOf, dropOf, labelsOf, ho, hst]
  | cons o os ih =>
    intro s ls ho hst hn
    obtain ⟨p1, p2, p3, p4, p5⟩ := open_step s ls ho hst o (hn o (by simp))
    obtain ⟨q1, q2, q3, q4, q5⟩ := ih _ _ p1 p5 (fun o' ho' => hn o' (by simp [ho']))
    simp only [runOps]
    refine ⟨q1, by rw [q2, p2], ?_, ?_, ?_⟩
    · rw [q3, p3, extOf_cons o os, List.append_assoc]
    · rw [q4, p4, dropOf_cons o os, List.append_assoc]
    · rw [q5]; simp [labelsOf, List.append_assoc]

theorem runOps_append (a b : List Op) : ∀ s, runOps s (a ++ b) = runOps (runOps s a) b := by
  induction a with
  | nil => intro s; rfl
  | cons o os ih => intro s; simp only [List.cons_append, runOps]; exact ih _

/-- the files a run `START; mid; STOP` must leave behind -/
def runFilesOf (mid : List Op) : RunFiles :=
  { ext := extOf mid, drop := dropOf mid, st := some ([lSTART] ++ labelsOf mid ++ [lSTOP]) }

/-- **C20_fresh_after_restart** (main segment theorem).  Let `pre` be ANY history after which writing
is not active (in particular one that ends with STOP).  Then a run `START; mid; STOP` - `mid` any ops
that contain no STOP: blocks, labels, PAUSE/UNPAUSE, refused STARTs, junk - leaves the files closed by
`pre` exactly as they were and closes exactly one new set of files, whose content `runFilesOf mid`
depends on `mid` alone: nothing is carried over from `pre`. -/
theorem C20_fresh_after_restart (pre mid : List Op) (rStart rStop : List Nat) (v : Bool)
    (hpre : (runOps S.init pre).active = false)
    (hs : C06.classify rStart = .start) (hp : C06.classify rStop = .stop) (hn : NoStop mid) :
    (runOps S.init (pre ++ [.req rStart true] ++ mid ++ [.req rStop v])).done =
      (runOps S.init pre).done ++ [runFilesOf mid] := by
  rw [runOps_append, runOps_append, runOps_append]
  generalize hs0 : runOps S.init pre = s0 at *
  have hc : Closed s0 := closed_of_inactive s0 (by rw [← hs0]; exact wf_runOps pre _ wf_init) hpre
  obtain ⟨c1, c2, c3, c4, c5⟩ := hc
  -- the START
  have h1 : runOps s0 [.req rStart true] =
      { s0 with active := true, extName := true, st := some [lSTART] } := by
    simp [runOps, step, stepReq, hs, c1, c5, setLabel]
  rw [h1]
  generalize hs1 : ({ s0 with active := true, extName := true, st := some [lSTART] } : S) = s1
  have ho : Open s1 := by rw [← hs1]; exact ⟨rfl, rfl, rfl⟩
  have hst : s1.st = some [lSTART] := by rw [← hs1]
  obtain ⟨q1, q2, q3, q4, q5⟩ := open_segment mid s1 [lSTART] ho hst hn
  -- the STOP
  simp only [runOps, step, stepReq, hp, stop, q1.1, if_true, q2, q5]
  have e1 : contentOf s1.ext = [] := by rw [← hs1]; show contentOf s0.ext = []; rw [c3]; rfl
  have e2 : contentOf s1.drop = [] := by rw [← hs1]; show contentOf s0.drop = []; rw [c4]; rfl
  have e3 : s1.done = s0.done := by rw [← hs1]
  rw [q3, q4, e1, e2, e3]
  simp [runFilesOf]

/-- **C20_ext_exact**: the external-trigger file of every run is exactly the counts delivered by the
blocks between its START and its STOP - all of them, once, in order, nothing else (paused or not). -/
theorem C20_ext_exact (pre mid : List Op) (rStart rStop : List Nat) (v : Bool)
    (hpre : (runOps S.init pre).active = false)
    (hs : C06.classify rStart = .start) (hp : C06.classify rStop = .stop) (hn : NoStop mid) :
    ((runOps S.init (pre ++ [.req rStart true] ++ mid ++ [.req rStop v])).done.getLast?.map (·.ext))
      = some (extOf mid) := by
  rw [C20_fresh_after_restart pre mid rStart rStop v hpre hs hp hn]
  simp [runFilesOf]

/-- **C20_drop_lines**: the data-drop file of every run has exactly one line `(first frame, dropped)`
per block between START and STOP that reports dropped frames, in order. -/
theorem C20_drop_lines (pre mid : List Op) (rStart rStop : List Nat) (v : Bool)
    (hpre : (runOps S.init pre).active = false)
    (hs : C06.classify rStart = .start) (hp : C06.classify rStop = .stop) (hn : NoStop mid) :
    ((runOps S.init (pre ++ [.req rStart true] ++ mid ++ [.req rStop v])).done.getLast?.map (·.drop))
      = some (dropOf mid) := by
  rw [C20_fresh_after_restart pre mid rStart rStop v hpre hs hp hn]
  simp [runFilesOf]

/-- **C20_state_file**: the experiment-state file of every run exists, starts with START, ends with
STOP, and has exactly one line per accepted label request (RPC label or `UNPAUSE label`) in between. -/
theorem C20_state_file (pre mid : List Op) (rStart rStop : List Nat) (v : Bool)
    (hpre : (runOps S.init pre).active = false)
    (hs : C06.classify rStart = .start) (hp : C06.classify rStop = .stop) (hn : NoStop mid) :
    ((runOps S.init (pre ++ [.req rStart true] ++ mid ++ [.req rStop v])).done.getLast?.map (·.st))
      = some (some ([lSTART] ++ labelsOf mid ++ [lSTOP])) := by
  rw [C20_fresh_after_restart pre mid rStart rStop v hpre hs hp hn]
  simp [runFilesOf]

/-- a label request is accepted (no error) exactly when it contributes a line, inside a run -/
theorem label_accepted_iff_line (s : S) (ho : Open s) (op : Op)
    (hl : (∃ l, op = .label l) ∨ (∃ ts l, op = .labelAt ts l)) :
    ((step s op).2 = false) ↔ (acceptedLabel op).length = 1 := by
  rcases hl with ⟨l, rfl⟩ | ⟨ts, l, rfl⟩
  · simp only [step, acceptedLabel, ho.1, Bool.true_and]
    cases l.isEmpty <;> cases C06.multiLine l <;> simp
  · simp only [step, acceptedLabel, ho.1, Bool.true_and]
    cases C06.multiLine l <;> simp

/-- **C20_label_own_stamp**: inside a run, a label handed to `AnySource.SetExperimentStateLabel` with
ANY time stamp `ts` (earlier than, equal to or later than the line before) and a single-line label is
accepted and appends exactly the line `(ts, l)` after everything already in the file. -/
theorem C20_label_own_stamp (s : S) (ls : List Line) (ho : Open s) (hst : s.st = some ls) (ts : Int)
    (l : Label) (hl : C06.multiLine l = false) :
    (step s (.labelAt ts l)).2 = false ∧ (step s (.labelAt ts l)).1.st = some (ls ++ [(some ts, l)]) := by
  simp only [step, ho.1, hl, Bool.true_and, Bool.not_false, if_true]
  exact ⟨trivial, by rw [hst]; rfl⟩

/-- **C20_closed_files_frozen**: files closed by a STOP never change afterwards, whatever follows. -/
theorem C20_closed_files_frozen (ops : List Op) : ∀ s, ∃ t, (runOps s ops).done = s.done ++ t := by
  induction ops with
  | nil => intro s; exact ⟨[], by simp [runOps]⟩
  | cons o os ih =>
    intro s
    obtain ⟨t, ht⟩ := ih (step s o).1
    have h1 : ∃ t1, (step s o).1.done = s.done ++ t1 := by
      cases o with
      | block e d f =>
        refine ⟨[], ?_⟩
        simp only [step, List.append_nil]
        rw [(handleDrop_fields _ d f).2.2.2.2, (handleExt_fields s e).2.2.2.2]
      | req r valid =>
        simp only [step]
        generalize C06.classify r = k
        cases k with
        | pause => exact ⟨[], by simp [stepReq]⟩
        | unpauseBad => exact ⟨[], by simp [stepReq]⟩
        | invalid => exact ⟨[], by simp [stepReq]⟩
        | unpause lbl =>
          cases lbl with
          | none => exact ⟨[], by simp [stepReq]⟩
          | some l => simp only [stepReq]; split <;> exact ⟨[], by simp⟩
        | start => simp only [stepReq]; split <;> exact ⟨[], by simp⟩
        | stop =>
          simp only [stepReq, stop]
          split
          · exact ⟨_, rfl⟩
          · exact ⟨[], by simp⟩
      | label l =>
        simp only [step]
        split
        · exact ⟨[], by simp⟩
        · split <;> exact ⟨[], by simp⟩
      | labelAt ts l =>
        simp only [step]
        split <;> exact ⟨[], by simp⟩
    obtain ⟨t1, ht1⟩ := h1
    exact ⟨t1 ++ t, by simp only [runOps]; rw [ht, ht1, List.append_assoc]⟩

/-! ### Non-vacuity -/

/-- a two-run history: the second run's files contain nothing of the first run or of the blocks
delivered between the runs -/
example :
    (runOps S.init
      [.req C06.sSTART true, .block [7, 8] 3 100, .label [65], .label [65, 10, 66], .req C06.sSTOP false,
       .block [9] 2 111,
       .req C06.sSTART true, .block [11] 0 121, .req (C06.sUNPAUSE ++ [32, 66]) false, .req C06.sSTOP false]).done
      = [{ ext := [7, 8], drop := [(100, 3)], st := some [lSTART, (none, [65]), lSTOP] },
         { ext := [11], drop := [], st := some [lSTART, (none, [66]), lSTOP] }] := by decide

/-- time stamps going backwards, repeating and jumping ahead: one line per accepted request, each with
its own stamp, in acceptance order -/
example :
    (runOps S.init
      [.req C06.sSTART true, .labelAt 50 [65], .label [66], .labelAt 50 [67], .labelAt 49 [68],
       .labelAt 4000000000000000000 [69], .label [70], .labelAt 0 [], .req C06.sSTOP false]).done
      = [{ ext := [], drop := [], st := some [lSTART, (some 50, [65]), (none, [66]), (some 50, [67]),
            (some 49, [68]), (some 4000000000000000000, [69]), (none, [70]), (some 0, []), lSTOP] }] := by decide

example : NoStop [.block [1] 0 5, .label [65], .req C06.sPAUSE false, .req C06.sSTART true] := by
  intro o ho
  simp only [List.mem_cons, List.not_mem_nil, or_false] at ho
  rcases ho with rfl | rfl | rfl | rfl <;> decide

example : (runOps S.init [.req C06.sSTART false, .label [65]]).active = false := by decide

end DastardV.C20
