/-
C08 — edge-multi triggering is block-boundary independent and never indexes outside.

Model: `Model/Trig.lean` (`findNext`, `monoRun`, `ztApply`, `shouldRecord`, `emtLoop`,
`emtSpecs`), the kink-model fit entering as an ARBITRARY oracle `zt : frame → shift` (every
theorem is ∀ `zt`).

Proved (all streams, thresholds of either sign, monotone counts, zero-threshold on/off):
* `C08_fixed_modes_full_length`   fixed-length modes give records with exactly the configured lengths;
* `C08_at_most_one_record_per_edge` a record is only made for an edge distinct from its neighbours;
* `C08_variable_no_overlap`       variable-length records start at/after the end of the previous edge's
                                  record, end at/before the next edge, and contain their trigger;
* `C08_search_in_bounds`          the search of one block (`findNext` with its monotone-run look-ahead and
                                  the kink-fit window) never reads outside the buffer;
* `C08_search_local`              locality: the search on the retained buffer (a suffix of the delivered
                                  stream) finds exactly what the search on the whole stream finds — the
                                  first half of block independence;
* record CONTENT exactness for edge-multi records is `C01_block_exact` (Props/C01).
Kept as full statements, decided at run time by the oracle `chkC08` on the REAL code (one-block vs
many-block runs of the same stream, crash = violation): `C08_block_independent_full`, `C08_no_oob_full`.
-/
import DastardV.Lemmas.EmtShift
namespace DastardV.C08
open Trig

theorem C08_fixed_modes_full_length {t u v npreIn nsampIn : Int} {mode : EMTMode} {sp : Spec}
    (hm : mode ≠ .variable) (h : shouldRecord t u v npreIn nsampIn mode = some sp) :
    sp.frame = u ∧ sp.npre = npreIn ∧ sp.nsamp = nsampIn :=
  shouldRecord_fixed hm h

theorem C08_at_most_one_record_per_edge {t u v npreIn nsampIn : Int} {mode : EMTMode} {sp : Spec}
    (h : shouldRecord t u v npreIn nsampIn mode = some sp) : sp.frame = u ∧ u ≠ 0 ∧ u ≠ v ∧ u ≠ t :=
  shouldRecord_distinct h

theorem C08_variable_no_overlap {t u v npreIn nsampIn : Int} {sp : Spec}
    (htu : t < u) (huv : u < v) (hpre : 0 ≤ npreIn) (hlen : npreIn ≤ nsampIn)
    (h : shouldRecord t u v npreIn nsampIn .variable = some sp) :
    sp.frame = u ∧ 0 ≤ sp.npre ∧ sp.npre ≤ sp.nsamp ∧
      t + imin (nsampIn - npreIn) (u - t) ≤ sp.frame - sp.npre ∧
      sp.frame - sp.npre + sp.nsamp ≤ v :=
  shouldRecord_variable htu huv hpre hlen h

/-- the search of one block never reads outside the buffer: scanning indices in
`[i, iLast]` with `1 ≤ i` (and `4 ≤ i`, look-ahead ≥ 3 when the kink fit is on), `iLast + maxN < len`. -/
theorem C08_search_in_bounds (raw : List Nat) (first : Int) (zt : ZT) (iFirst iLast thr nmono maxN : Int)
    (ezt : Bool) (hmax : 1 ≤ maxN) (hlast : iLast + maxN < raw.length) (hz : ezt = true → 3 ≤ maxN)
    (i : Int) (h1 : 1 ≤ i) (h4 : ezt = true → 4 ≤ i) :
    ∃ x, findNext raw first zt iFirst iLast thr nmono maxN ezt i = some x :=
  let ⟨x, hx, _⟩ := findNext_some raw first zt iFirst iLast thr nmono maxN ezt hmax hlast hz _ i (Nat.le_refl _) h1 h4
  ⟨x, hx⟩

/-- locality of the search -/
theorem C08_search_local (G : List Nat) (k : Nat) (f0 : Int) (zt : ZT) (iFirst iLast thr nmono maxN : Int)
    (ezt : Bool) (i : Int) (h1 : 1 ≤ i) (h4 : ezt = true → 4 ≤ i) :
    findNext (G.drop k) (f0 + k) zt iFirst iLast thr nmono maxN ezt i =
      (findNext G f0 zt (k + iFirst) (k + iLast) thr nmono maxN ezt (k + i)).map (Found.shift k) :=
  findNext_drop G k f0 zt iFirst iLast thr nmono maxN ezt _ i (Nat.le_refl _) h1 h4

/-! ### single-channel edge-multi run and the full statements -/

/-- one block for one channel in edge-multi mode: append, compute record specs, trim -/
def stepEmt (zt : ZT) (c : Chan) (seg : List Nat) (first per : Int) (sg : Bool) : Option (Chan × List Spec) :=
  let ca := append c seg first 0 per sg
  match emtSpecs ca.buf ca.first zt ca.emt with
  | none => none
  | some (emt', specs) => some (trim { ca with emt := emt' }, specs)

def runEmt (zt : ZT) (per : Int) (sg : Bool) : Chan → Int → List (List Nat) → Option (Chan × List Spec)
  | c, _, [] => some (c, [])
  | c, first, seg :: segs =>
    match stepEmt zt c seg first per sg with
    | none => none
    | some (c1, sp) =>
      match runEmt zt per sg c1 (first + seg.length) segs with
      | none => none
      | some (c2, sp2) => some (c2, sp ++ sp2)

/-- a freshly configured edge-multi channel -/
def FreshEmt (c : Chan) : Prop :=
  c.buf = [] ∧ c.emt.next = 0 ∧ c.emt.t = 0 ∧ c.emt.u = 0 ∧ c.emt.v = 0 ∧
    c.emt.npre = c.npre ∧ c.emt.nsamp = c.nsamp ∧ 3 ≤ c.npre ∧ c.npre < c.nsamp ∧ c.emt.valid = true

/-- FULL: the record list does not depend on how the stream is cut into blocks -/
def C08_block_independent_full : Prop :=
  ∀ (zt : ZT) (per f0 : Int) (sg : Bool) (c c1 c2 : Chan) (segs : List (List Nat)) (e1 e2 : List Spec),
    FreshEmt c → 0 < f0 →
    runEmt zt per sg c f0 segs = some (c1, e1) →
    runEmt zt per sg c f0 [segs.flatten] = some (c2, e2) → e1 = e2

/-- FULL: no stream content or block pattern makes the edge-multi pass index outside -/
def C08_no_oob_full : Prop :=
  ∀ (zt : ZT) (per f0 : Int) (sg : Bool) (c : Chan) (segs : List (List Nat)),
    FreshEmt c → 0 < f0 → (∀ p, -1 ≤ zt p ∧ zt p ≤ 1) →
    ∃ r, runEmt zt per sg c f0 segs = some r

/-- the hypotheses are met by an ordinary configuration -/
example : FreshEmt { npre := 4, nsamp := 12, emt := { npre := 4, nsamp := 12, threshold := 100, nmonotone := 1, enableZT := true } } := by
  refine ⟨rfl, rfl, rfl, rfl, rfl, rfl, rfl, by decide, by decide, by decide⟩

end DastardV.C08
