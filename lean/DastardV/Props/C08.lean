/-
C08 — edge-multi triggering is block-boundary independent and never indexes outside.

Model: `Model/Trig.lean` (`findNext`, `monoRun`, `ztApply`, `shouldRecord`, `emtLoop`,
`emtSpecs`), the kink-model fit entering as an ARBITRARY oracle `zt : frame → shift` (every
theorem is ∀ `zt`).

Proved (all streams, thresholds of either sign, monotone counts, zero-threshold on/off):
* `C08_fixed_modes_full_length`   fixed-length modes give records with exactly the configured lengths;
* `C08_at_most_one_record_per_edge` a record is only made for an edge distinct from its neighbours;
* `C08_variable_no_overlap`       variable-length records start at/after the end of the previous edge's
                                  record, end at/before the next edge, and contain their trigger;
* `C08_search_in_bounds`          the search of one block (`findNext` with its monotone-run look-ahead and
                                  the kink-fit window) never reads outside the buffer;
* `C08_search_local`              locality: the search on the retained buffer (a suffix of the delivered
                                  stream) finds exactly what the search on the whole stream finds — the
                                  first half of block independence;
* record CONTENT exactness for edge-multi records is `C01_block_exact` (Props/C01).
* `C08_block_independent`         the sequence of record specifications (frame, pre-trigger length, length)
                                  is the same whether the stream arrives cut into any blocks or as one
                                  block (simulation proof: `Lemmas/EmtSim.lean`, `EmtStep.lean`).
* `C08_records_block_independent` the same for the RECORDS of the real step (append → `TriggerData` → trim):
                                  same frames, pre-trigger lengths and samples whatever the partition
                                  (`Lemmas/EmtRecs.lean`: records = cuts of the specifications = excerpts of
                                  the delivered stream).
* `C08_no_oob`                    across blocks too, no search read and no record cut ever leaves the
                                  buffer (invariant `EmtSafe`: the pending edge is recorded, absent, or
                                  recent enough that its whole record is retained).
-/
import DastardV.Lemmas.EmtStep
import DastardV.Lemmas.EmtSafe
import DastardV.Lemmas.EmtRecs
import DastardV.Lemmas.PipeProj
namespace DastardV.C08
open Trig

theorem C08_fixed_modes_full_length {t u v npreIn nsampIn : Int} {mode : EMTMode} {sp : Spec}
    (hm : mode ≠ .variable) (h : shouldRecord t u v npreIn nsampIn mode = some sp) :
    sp.frame = u ∧ sp.npre = npreIn ∧ sp.nsamp = nsampIn :=
  shouldRecord_fixed hm h

theorem C08_at_most_one_record_per_edge {t u v npreIn nsampIn : Int} {mode : EMTMode} {sp : Spec}
    (h : shouldRecord t u v npreIn nsampIn mode = some sp) : sp.frame = u ∧ u ≠ 0 ∧ u ≠ v ∧ u ≠ t :=
  shouldRecord_distinct h

theorem C08_variable_no_overlap {t u v npreIn nsampIn : Int} {sp : Spec}
    (htu : t < u) (huv : u < v) (hpre : 0 ≤ npreIn) (hlen : npreIn ≤ nsampIn)
    (h : shouldRecord t u v npreIn nsampIn .variable = some sp) :
    sp.frame = u ∧ 0 ≤ sp.npre ∧ sp.npre ≤ sp.nsamp ∧
      t + imin (nsampIn - npreIn) (u - t) ≤ sp.frame - sp.npre ∧
      sp.frame - sp.npre + sp.nsamp ≤ v :=
  shouldRecord_variable htu huv hpre hlen h

/-- the search of one block never reads outside the buffer: scanning indices in
`[i, iLast]` with `1 ≤ i` (and `4 ≤ i`, look-ahead ≥ 3 when the kink fit is on), `iLast + maxN < len`. -/
theorem C08_search_in_bounds (raw : List Nat) (first : Int) (zt : ZT) (iFirst iLast thr nmono maxN : Int)
    (ezt : Bool) (hmax : 1 ≤ maxN) (hlast : iLast + maxN < raw.length) (hz : ezt = true → 3 ≤ maxN)
    (i : Int) (h1 : 1 ≤ i) (h4 : ezt = true → 4 ≤ i) :
    ∃ x, findNext raw first zt iFirst iLast thr nmono maxN ezt i = some x :=
  let ⟨x, hx, _⟩ := findNext_some raw first zt iFirst iLast thr nmono maxN ezt hmax hlast hz _ i (Nat.le_refl _) h1 h4
  ⟨x, hx⟩

/-- locality of the search -/
theorem C08_search_local (G : List Nat) (k : Nat) (f0 : Int) (zt : ZT) (iFirst iLast thr nmono maxN : Int)
    (ezt : Bool) (i : Int) (h1 : 1 ≤ i) (h4 : ezt = true → 4 ≤ i) :
    findNext (G.drop k) (f0 + k) zt iFirst iLast thr nmono maxN ezt i =
      (findNext G f0 zt (k + iFirst) (k + iLast) thr nmono maxN ezt (k + i)).map (Found.shift k) :=
  findNext_drop G k f0 zt iFirst iLast thr nmono maxN ezt _ i (Nat.le_refl _) h1 h4

/-! ### block independence -/

/-- **C08, block independence.**  One channel in edge-multi mode, freshly configured (`FreshC`:
empty buffer, scan position 0, lengths satisfying the validity rule), fed the same stream once cut
into ANY sequence of blocks `seg :: segs` (any lengths, empty blocks allowed) and once as a single
block: whenever neither run panics, the sequences of record specifications (trigger frame,
pre-trigger length, total length) are identical — for every threshold, monotone count, record mode
and every kink-fit oracle `zt` that moves a trigger by at least −1 sample (the real fit moves it by
−1, 0 or +1).  Together with `C01_block_exact` (samples of a record are the stream excerpt its
specification names) this is the block independence of the records. -/
theorem C08_block_independent (zt : ZT) (hzt : ∀ p, -1 ≤ zt p) (per f0 : Int) (hf0 : 0 ≤ f0) (sg : Bool)
    (c : Chan) (hf : FreshC c) (seg : List Nat) (segs : List (List Nat)) (c1 c2 : Chan) (e1 e2 : List Spec)
    (hmulti : runEmt zt per sg c f0 (seg :: segs) = some (c1, e1))
    (hsingle : runEmt zt per sg c f0 [(seg :: segs).flatten] = some (c2, e2)) : e1 = e2 := by
  -- the block-by-block run
  unfold runEmt at hmulti
  split at hmulti
  · simp at hmulti
  rename_i ca spa hstepa
  split at hmulti
  · simp at hmulti
  rename_i cb spb hrunb
  simp only [Option.some.injEq, Prod.mk.injEq] at hmulti
  obtain ⟨_, rfl⟩ := hmulti
  obtain ⟨ka, hinva⟩ := stepEmt_first hf hf0 hstepa
  have hrunb' : runEmt zt per sg ca (f0 + (seg.length : Int)) segs = some (cb, spb) := hrunb
  obtain ⟨kb, hinvb⟩ := runEmt_inv hf.hok hzt segs seg ca spa ka cb spb hinva hrunb'
  -- the single-block run
  unfold runEmt at hsingle
  split at hsingle
  · simp at hsingle
  rename_i cs sps hsteps
  simp only [runEmt, Option.some.injEq, Prod.mk.injEq] at hsingle
  obtain ⟨_, rfl⟩ := hsingle
  obtain ⟨ks, hinvs⟩ := stepEmt_first hf hf0 hsteps
  have hG : (seg :: segs).flatten = seg ++ segs.flatten := by simp
  rw [hG] at hinvs
  simpa using emtInv_same hf.hok hinvb hinvs

/-- the hypotheses are met by an ordinary configuration -/
example : FreshC { npre := 4, nsamp := 12, emt := { npre := 4, nsamp := 12, threshold := 100, nmonotone := 1, enableZT := true } } :=
  ⟨rfl, rfl, ⟨by decide, by decide, fun _ => by decide⟩⟩

/-! ### never indexes outside -/

theorem runFull_some (zt : ZT) (hzt : ∀ p, -1 ≤ zt p ∧ zt p ≤ 1) (tp : Nat → Int × Int) (sg : Bool) :
    ∀ (segs : List (List Nat)) (n : Nat) (c : Chan) (first : Int), EmtSafe c →
      ((c.emt.next = 0 ∧ 0 ≤ first - c.buf.length) ∨ (c.emt.next ≠ 0 ∧ first = c.first + c.buf.length)) →
      ∃ r, runFull zt tp sg n c first segs = some r
  | [], n, c, first, _, _ => ⟨_, rfl⟩
  | seg :: segs, n, c, first, hs, hcont => by
    obtain ⟨c', recs, htd, hs', hnz, hend, _⟩ := emtSafe_step c zt hzt hs seg first (tp n).1 (tp n).2 sg hcont
    obtain ⟨r, hr⟩ := runFull_some zt hzt tp sg segs (n + 1) (trim c') (first + seg.length) hs' (Or.inr ⟨hnz, hend.symm⟩)
    refine ⟨(r.1, recs ++ r.2), ?_⟩
    unfold runFull stepFull
    simp only [htd]
    rw [hr]

/-- **C08, never indexes outside.**  For a freshly configured edge-multi channel (valid lengths), ANY
stream content, ANY cut into blocks (any lengths, including empty blocks and blocks shorter than a
record), any threshold / monotone count / record mode and any kink-fit oracle with shifts in
{−1, 0, +1}: every block is processed — no read of the search and no record cut leaves the buffer
(in the model a Go index/slice panic is the value `none`). -/
theorem C08_no_oob (zt : ZT) (hzt : ∀ p, -1 ≤ zt p ∧ zt p ≤ 1) (tp : Nat → Int × Int) (n : Nat) (f0 : Int)
    (hf0 : 0 ≤ f0) (sg : Bool)
    (c : Chan) (hs : EmtSafe c) (hfresh : c.buf = [] ∧ c.emt.next = 0) (segs : List (List Nat)) :
    ∃ r, runFull zt tp sg n c f0 segs = some r :=
  runFull_some zt hzt tp sg segs n c f0 hs (Or.inl ⟨hfresh.2, by rw [hfresh.1]; simpa using hf0⟩)

/-- **C08, block independence of the RECORDS.**  The real per-channel pipeline (`runFull`: append →
`TriggerData` → trim, block `n` stamped with any time and period `tp n`) on a freshly configured
edge-multi channel, fed the same stream once cut into ANY blocks and once as a single block: whenever
neither run panics (and `C08_no_oob` shows they do not), the two runs emit the same records — the same
trigger frames, the same pre-trigger lengths and the same samples, in the same order — for every
threshold, monotone count, record mode, signedness flag and kink-fit oracle.  (Time stamps are derived
from the block stamps and are outside this statement.) -/
theorem C08_records_block_independent (zt : ZT) (hzt : ∀ p, -1 ≤ zt p) (tp tq : Nat → Int × Int) (n m : Nat)
    (f0 : Int) (hf0 : 0 ≤ f0) (sg sg' : Bool) (c : Chan) (hf : FreshC c) (hem : c.ts.edgeMulti = true)
    (seg : List Nat) (segs : List (List Nat)) (c1 c2 : Chan) (r1 r2 : List Rec)
    (hmulti : runFull zt tp sg n c f0 (seg :: segs) = some (c1, r1))
    (hsingle : runFull zt tq sg' m c f0 [(seg :: segs).flatten] = some (c2, r2)) :
    r1.map coreOf = r2.map coreOf := by
  have hns : 0 ≤ c.emt.nsamp := by have := hf.hok.npre3; have := hf.hok.lt; omega
  have hrep : RepOrFresh [] f0 c := Or.inl ⟨hf.hbuf, rfl⟩
  obtain ⟨a1, e1, he1, hs1, hx1⟩ := runFull_specs zt tp 1 sg false f0 (seg :: segs) n c c [] c1 r1 hem hns
    (EmtEq.refl c) hrep (by simpa using hmulti)
  obtain ⟨a2, e2, he2, hs2, hx2⟩ := runFull_specs zt tq 1 sg' false f0 [(seg :: segs).flatten] m c c [] c2 r2 hem hns
    (EmtEq.refl c) hrep (by simpa using hsingle)
  have he : e1 = e2 := C08_block_independent zt hzt 1 f0 hf0 false c hf seg segs a1 a2 e1 e2
    (by simpa using he1) (by simpa using he2)
  have hx2' : ∀ r ∈ r2, Excerpt ([] ++ (seg :: segs).flatten) f0 r := by
    intro r hr
    have := hx2 r hr
    simpa using this
  exact cores_eq_of_specs (by rw [hs1, hs2, he]) hx1 hx2'

/-- the hypotheses are met by an ordinary configuration -/
example : EmtSafe { npre := 4, nsamp := 12, ts := { edgeMulti := true },
                    emt := { npre := 4, nsamp := 12, threshold := 100, nmonotone := 1, enableZT := true } } :=
  ⟨by decide, by decide, fun _ => by decide, rfl, Or.inr rfl, Or.inl rfl⟩

/-! ### The same at the level of the whole source -/

open Pipe in
/-- **C08 at source level.**  Two runs of the source-level model `Pipe.runOps` (the model the
correspondence check compares with the real `ProcessSegments`), whatever their other channels and
trigger brokers: in one channel `j` receives the stream cut into the blocks `seg :: segs`, in the other
as one block; channel `j` starts as the same freshly configured edge-multi channel.  Then the primary
records published for channel `j` are the same (frames, pre-trigger lengths, samples). -/
theorem C08_source_level {zts zts' : List (List (Int × Int))} (hz : zts[j]?.getD [] = zts'[j']?.getD [])
    (hzt : ∀ p, -1 ≤ ztOf (zts[j]?.getD []) p)
    {sg sg' : Bool} {tp tq : Nat → Int × Int} {n m : Nat} {ops ops' : List Op} {f0 : Int} (hf0 : 0 ≤ f0)
    {seg : List Nat} {segs : List (List Nat)} {s s' : Src} {c : Chan} {outs outs' : List Out}
    (hb : BlocksFor j sg tp n f0 ops (seg :: segs)) (hb' : BlocksFor j' sg' tq m f0 ops' [(seg :: segs).flatten])
    (hc : s.chans[j]? = some c) (hc' : s'.chans[j']? = some c) (hf : FreshC c) (hem : c.ts.edgeMulti = true)
    (hrun : runOps zts s ops = some outs) (hrun' : runOps zts' s' ops' = some outs') :
    ∃ parts parts', OutsFor j outs parts ∧ OutsFor j' outs' parts' ∧
      ((parts.map (·.1)).flatten).map coreOf = ((parts'.map (·.1)).flatten).map coreOf := by
  obtain ⟨c1, r1, parts, hr1, ho1, he1⟩ := runOps_chan zts j sg tp ops n f0 (seg :: segs) s c outs hb hc hrun
  obtain ⟨c2, r2, parts', hr2, ho2, he2⟩ := runOps_chan zts' j' sg' tq ops' m f0 [(seg :: segs).flatten] s' c outs' hb' hc' hrun'
  refine ⟨parts, parts', ho1, ho2, ?_⟩
  rw [← he1, ← he2]
  rw [← hz] at hr2
  exact C08_records_block_independent _ hzt tp tq n m f0 hf0 sg sg' c hf hem seg segs c1 c2 r1 r2 hr1 hr2

end DastardV.C08
