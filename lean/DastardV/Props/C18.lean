/-
C18 — property theorems for the ring-buffer model (`Model/C18.lean`).

Abstraction: `W` is the logical stream of all bytes accepted by writes so far.  The
representation invariant says the raw region holds the last `cap` bytes of `W`; a read
then returns exactly the window `W[r, r+k)`.
-/
import DastardV.Model.C18
namespace DastardV.C18

/-- the raw region holds the last `cap` bytes of the logical stream `W` -/
structure Rep (b : RB) (W : List Nat) : Prop where
  cap2 : 2 ≤ b.cap
  len : b.mem.length = b.cap
  w_eq : b.w = W.length
  r_le : b.r ≤ b.w
  occ : b.w - b.r ≤ b.cap - 1
  held : ∀ i (hi : i < W.length), W.length ≤ i + b.cap → b.mem[i % b.cap]? = some W[i]

theorem rep_create (cap : Nat) (h : 2 ≤ cap) : Rep (RB.create cap) [] := by
  sorry

/-- `Write` accepts `min len free` bytes, appends them to the logical stream and keeps the
representation; the read pointer does not move. -/
theorem write_spec (b : RB) (W : List Nat) (hr : Rep b W) (d : List Nat) :
    ∃ b' n, write b d = some (b', n) ∧ n = min d.length (b.cap - 1 - (b.w - b.r)) ∧
      b'.r = b.r ∧ b'.cap = b.cap ∧ Rep b' (W ++ d.take n) := by
  sorry

/-- `Read(size)` returns exactly the next `k = clamp size` bytes of the logical stream and
advances the read pointer by `k`. -/
theorem read_spec (b : RB) (W : List Nat) (hr : Rep b W) (size : Int) :
    let k := (min size ((b.w : Int) - b.r)).toNat
    (read b size).2 = (W.drop b.r).take k ∧ (read b size).1.r = b.r + k ∧
      (read b size).2.length = k ∧ (read b size).1.cap = b.cap ∧ Rep (read b size).1 W := by
  sorry

/-- **C18_multiple_of_chunk**: a successful `ReadMultipleOf(k)` returns a multiple of `k` bytes. -/
theorem C18_multiple_of_chunk (b : RB) (W : List Nat) (hr : Rep b W) (k : Nat) (hk : 1 ≤ k)
    (b' : RB) (bs : List Nat) (h : readMultipleOf b k = some (b', bs)) :
    bs.length % k = 0 ∧ bs = (W.drop b.r).take bs.length ∧ b'.r = b.r + bs.length ∧ Rep b' W := by
  sorry

/-- **C18_stride_boundary**: `DiscardStride(k)` leaves the read position on a stride boundary. -/
theorem C18_stride_boundary (b : RB) (k : Nat) (hk : 1 ≤ k) : (discardStride b k).r % k = 0 := by
  sorry

/-- a discard is *forward* when the last stride boundary is not behind the read pointer -/
def Forward (b : RB) (k : Nat) : Prop := b.r ≤ b.w - b.w % k

theorem discard_spec (b : RB) (W : List Nat) (hr : Rep b W) (k : Nat) (hk : 1 ≤ k) (hf : Forward b k) :
    Rep (discardStride b k) W ∧ b.r ≤ (discardStride b k).r ∧ (discardStride b k).r ≤ b.w := by
  sorry

/-! ### Whole histories -/

/-- every discard of the history is forward, every stride and chunk size is ≥ 1 -/
def OkHist : RB → List Op → Prop
  | _, [] => True
  | b, o :: os =>
    (match o with
      | .discard k => 1 ≤ k ∧ Forward b k
      | .readMult k => 1 ≤ k
      | _ => True) ∧ OkHist (step b o).1 os

/-- bytes accepted by the writes of a run -/
def accepted : List Op → List Res → List Nat
  | .write d :: os, .wrote n :: rs => d.take n ++ accepted os rs
  | _ :: os, _ :: rs => accepted os rs
  | _, _ => []

/-- bytes returned by the reads of a run, concatenated -/
def delivered : List Res → List Nat
  | [] => []
  | .bytes bs :: rs => bs ++ delivered rs
  | _ :: rs => delivered rs

/-- keep the elements of `xs` whose mask bit is `true` -/
def keepMask : List Nat → List Bool → List Nat
  | x :: xs, m :: ms => if m then x :: keepMask xs ms else keepMask xs ms
  | _, _ => []

/-- **C18_reads_prefix_of_writes** (histories without discards): the concatenation of all
bytes returned by reads is a prefix of the concatenation of all bytes accepted by writes —
exactly the first `r` of them — for every buffer size ≥ 2 and every operation sequence. -/
theorem C18_reads_prefix_of_writes (cap : Nat) (h2 : 2 ≤ cap) (ops : List Op)
    (hno : ∀ o ∈ ops, ∀ k, o ≠ .discard k) (hk : ∀ o ∈ ops, ∀ k, o = .readMult k → 1 ≤ k) :
    let out := runOps (RB.create cap) ops
    delivered out.2 = (accepted ops out.2).take out.1.r ∧ out.1.r ≤ (accepted ops out.2).length := by
  sorry

/-- **C18_fifo_with_discards**: with forward discards, the delivered bytes are the accepted
stream restricted to the non-discarded positions, in order, each once: there is a mask over
the first `r` positions (false exactly on discarded positions) selecting the delivered bytes. -/
theorem C18_fifo_with_discards (cap : Nat) (h2 : 2 ≤ cap) (ops : List Op)
    (hok : OkHist (RB.create cap) ops) :
    let out := runOps (RB.create cap) ops
    ∃ mask : List Bool, mask.length = out.1.r ∧ out.1.r ≤ (accepted ops out.2).length ∧
      delivered out.2 = keepMask ((accepted ops out.2).take out.1.r) mask := by
  sorry

/-- **C18_rewind_counterexample**: the forward hypothesis is needed.  cap 64: write 13 bytes,
`Read(10)`, `DiscardStride(8)`, `ReadAll` re-delivers bytes 8 and 9. -/
theorem C18_rewind_counterexample :
    let ops := [Op.write (List.range 13), .read 10, .discard 8, .readAll]
    delivered (runOps (RB.create 64) ops).2 = [0,1,2,3,4,5,6,7,8,9] ++ [8,9,10,11,12] := by
  decide

/-- non-vacuity: an ordinary wrapping history satisfies `OkHist` -/
example : OkHist (RB.create 4) [.write [1,2,3], .read 2, .write [4,5], .discard 2, .readAll] := by
  decide

end DastardV.C18
