/-
C18 — property theorems for the ring-buffer model (`Model/C18.lean`).

Abstraction: `W` is the logical stream of all bytes accepted by writes so far.  The
representation invariant says the raw region holds the last `cap` bytes of `W`; a read
then returns exactly the window `W[r, r+k)`.
-/
import DastardV.Model.C18
namespace DastardV.C18

/-! ### Arithmetic and list helpers -/

theorem dm (cap m x a : Nat) (h : a = cap * m + x) (hx : x < cap) :
    a / cap = m ∧ a % cap = x := by
  subst h
  have hc : 0 < cap := by omega
  constructor
  · rw [Nat.mul_add_div hc, Nat.div_eq_of_lt hx]; simp
  · rw [Nat.mul_add_mod, Nat.mod_eq_of_lt hx]

theorem shift (cap a d : Nat) (hc : 0 < cap) (hd : d < cap) :
    ((a + d) % cap = if a % cap + d < cap then a % cap + d else a % cap + d - cap) ∧
    ((a + d) / cap > a / cap ↔ cap ≤ a % cap + d) := by
  have h := Nat.div_add_mod a cap
  have hlt := Nat.mod_lt a hc
  generalize a / cap = q at *
  generalize a % cap = ra at *
  by_cases hw : ra + d < cap
  · have := dm cap q (ra + d) (a + d) (by omega) hw
    rw [this.1, this.2, if_pos hw]; omega
  · have := dm cap (q+1) (ra + d - cap) (a + d) (by have := Nat.mul_add cap q 1; omega) (by omega)
    rw [this.1, this.2, if_neg hw]; omega

theorem blit_len (mem : List Nat) (s : Nat) (src : List Nat) (h : s + src.length ≤ mem.length) :
    (blit mem s src).length = mem.length := by
  simp [blit]; omega

theorem blit_get (mem : List Nat) (s : Nat) (src : List Nat) (j : Nat)
    (h : s + src.length ≤ mem.length) :
    (blit mem s src)[j]? = if s ≤ j ∧ j < s + src.length then src[j - s]? else mem[j]? := by
  unfold blit
  have hl : (List.take s mem).length = s := by simp; omega
  by_cases h1 : j < s
  · rw [List.append_assoc, List.getElem?_append_left (by omega)]
    rw [if_neg (by omega), List.getElem?_take, if_pos h1]
  · by_cases h2 : j < s + src.length
    · rw [List.append_assoc, List.getElem?_append_right (by omega), hl,
        List.getElem?_append_left (by omega), if_pos (by omega)]
    · rw [List.getElem?_append_right (by simp; omega), if_neg (by omega), List.getElem?_drop]
      simp only [List.length_append, hl]
      congr 1; omega

/-! ### `read` unfolded -/

def rdata (mem : List Nat) (cap r k : Nat) : List Nat :=
  let rAfter := r + k
  let dataWraps := rAfter / cap > r / cap
  let rawbegin := r % cap
  let rawend := if dataWraps then cap else rAfter % cap
  let data := slice mem rawbegin rawend
  if dataWraps ∧ k > data.length then data ++ mem.take (k - data.length) else data

theorem read_pos (b : RB) (size : Int) (k : Nat) (hk : k = (min size ((b.w : Int) - b.r)).toNat)
    (h0 : 0 < k) : read b size = ({ b with r := b.r + k }, rdata b.mem b.cap b.r k) := by
  unfold read rdata
  have e : (if size > (b.w : Int) - b.r then (b.w : Int) - b.r else size) = min size ((b.w : Int) - b.r) := by
    split <;> omega
  simp only [e]
  rw [if_neg (by omega), ← hk]

theorem read_zero (b : RB) (size : Int) (hk : (min size ((b.w : Int) - b.r)).toNat = 0) :
    read b size = (b, []) := by
  unfold read
  have e : (if size > (b.w : Int) - b.r then (b.w : Int) - b.r else size) = min size ((b.w : Int) - b.r) := by
    split <;> omega
  simp only [e]
  rw [if_pos (by omega)]

theorem rdata_spec (mem : List Nat) (cap r k : Nat) (hlen : mem.length = cap) (hk : k < cap) :
    (rdata mem cap r k).length = k ∧
      ∀ j, j < k → (rdata mem cap r k)[j]? = mem[(r + j) % cap]? := by
  have hc : 0 < cap := by omega
  have hs := shift cap r k hc hk
  have hlt := Nat.mod_lt r hc
  have hj : ∀ j, j < k → (r + j) % cap = if r % cap + j < cap then r % cap + j else r % cap + j - cap :=
    fun j hj => (shift cap r j hc (by omega)).1
  unfold rdata slice
  simp only [hs.1, hs.2]
  generalize r % cap = rb at *
  by_cases hw : cap ≤ rb + k
  · simp only [hw, if_true, true_and, List.length_take, List.length_drop, hlen, Nat.min_self]
    by_cases hw2 : k > cap - rb
    · simp only [hw2, if_true]
      constructor
      · simp [hlen]; omega
      · intro j hjk
        rw [hj j hjk]
        by_cases h3 : rb + j < cap
        · rw [if_pos h3, List.getElem?_append_left (by simp [hlen]; omega), List.getElem?_take,
            if_pos (by omega), List.getElem?_drop]
        · rw [if_neg h3, List.getElem?_append_right (by simp [hlen]; omega), List.getElem?_take]
          simp only [List.length_take, List.length_drop, hlen, Nat.min_self]
          rw [if_pos (by omega)]
          congr 1; omega
    · simp only [hw2, if_false]
      constructor
      · simp [hlen]; omega
      · intro j hjk
        rw [hj j hjk, if_pos (by omega), List.getElem?_take, if_pos (by omega), List.getElem?_drop]
  · simp only [hw, false_and, if_false]
    have e : (if rb + k < cap then rb + k else rb + k - cap) - rb = k := by
      rw [if_pos (by omega)]; omega
    rw [e]
    constructor
    · simp [hlen]; omega
    · intro j hjk
      rw [hj j hjk, if_pos (by omega), List.getElem?_take, if_pos (by omega), List.getElem?_drop]

/-! ### `write` unfolded -/

def wmem (mem : List Nat) (cap w written : Nat) (data : List Nat) : List Nat :=
  let wAfter := w + written
  let dataWraps := wAfter / cap > w / cap
  let rawbegin := w % cap
  let rawend := if dataWraps then cap else wAfter % cap
  let firstblocksize := rawend - rawbegin
  let mem1 := blit mem rawbegin (data.take firstblocksize)
  if dataWraps then blit mem1 0 ((data.drop firstblocksize).take (written - firstblocksize))
  else mem1

theorem write_eq (b : RB) (d : List Nat) (h : b.w - b.r + 1 ≤ b.cap) (n : Nat)
    (hn : n = min d.length (b.cap - 1 - (b.w - b.r))) :
    write b d = some ({ b with w := b.w + n, mem := wmem b.mem b.cap b.w n d }, n) := by
  unfold write wmem
  have e : (if d.length > b.cap - (b.w - b.r + 1) then b.cap - (b.w - b.r + 1) else d.length) = n := by
    split <;> omega
  simp only [e]
  rw [if_neg (by omega)]

theorem wmem_spec (mem : List Nat) (cap w n : Nat) (d : List Nat) (hlen : mem.length = cap)
    (hn : n < cap) (hnd : n ≤ d.length) :
    (wmem mem cap w n d).length = cap ∧
      ∀ p, p < cap → (wmem mem cap w n d)[p]? =
        if w % cap ≤ p ∧ p < w % cap + n then d[p - w % cap]?
        else if p + cap < w % cap + n then d[p + cap - w % cap]? else mem[p]? := by
  have hc : 0 < cap := by omega
  have hs := shift cap w n hc hn
  have hlt := Nat.mod_lt w hc
  unfold wmem
  simp only [hs.1, hs.2]
  generalize w % cap = rb at *
  by_cases hw : cap ≤ rb + n
  · simp only [hw, if_true]
    have l1 : (List.take (cap - rb) d).length = cap - rb := by simp; omega
    have l2 : (List.take (n - (cap - rb)) (List.drop (cap - rb) d)).length = n - (cap - rb) := by
      simp; omega
    have lb : (blit mem rb (List.take (cap - rb) d)).length = cap := by
      rw [blit_len _ _ _ (by omega)]; exact hlen
    constructor
    · rw [blit_len _ _ _ (by omega)]; exact lb
    · intro p hp
      rw [blit_get _ _ _ _ (by omega), blit_get _ _ _ _ (by omega), l1, l2]
      by_cases h1 : p < n - (cap - rb)
      · rw [if_pos (by omega), if_neg (by omega), if_pos (by omega), List.getElem?_take,
          if_pos (by omega), List.getElem?_drop]
        congr 1; omega
      · rw [if_neg (by omega), if_neg (by omega : ¬ (p + cap < rb + n))]
        by_cases h2 : rb ≤ p
        · rw [if_pos (by omega), if_pos (by omega), List.getElem?_take, if_pos (by omega)]
        · rw [if_neg (by omega), if_neg (by omega)]
  · simp only [hw, if_false]
    have e : (if rb + n < cap then rb + n else rb + n - cap) - rb = n := by
      rw [if_pos (by omega)]; omega
    rw [e]
    have l1 : (List.take n d).length = n := by simp; omega
    constructor
    · rw [blit_len _ _ _ (by omega)]; exact hlen
    · intro p hp
      rw [blit_get _ _ _ _ (by omega), l1]
      by_cases h2 : rb ≤ p ∧ p < rb + n
      · rw [if_pos h2, if_pos h2, List.getElem?_take, if_pos (by omega)]
      · rw [if_neg h2, if_neg h2, if_neg (by omega)]

theorem wmem_log (mem : List Nat) (cap w n : Nat) (d : List Nat) (hlen : mem.length = cap)
    (hn : n < cap) (hnd : n ≤ d.length) (i : Nat) (hi : i < w + n) (hic : w + n ≤ i + cap) :
    (wmem mem cap w n d)[i % cap]? = if w ≤ i then d[i - w]? else mem[i % cap]? := by
  have hc : 0 < cap := by omega
  have hp := Nat.mod_lt i hc
  have hlt := Nat.mod_lt w hc
  rw [(wmem_spec mem cap w n d hlen hn hnd).2 _ hp]
  by_cases h : w ≤ i
  · have hs := (shift cap w (i - w) hc (by omega)).1
    rw [show w + (i - w) = i by omega] at hs
    rw [if_pos h, hs]
    by_cases h2 : w % cap + (i - w) < cap
    · rw [if_pos h2, if_pos (by omega)]
      congr 1; omega
    · rw [if_neg h2, if_neg (by omega), if_pos (by omega)]
      congr 1; omega
  · rw [if_neg h]
    by_cases hn0 : n = 0
    · rw [if_neg (by omega), if_neg (by omega)]
    · have hs := (shift cap i (w - i) hc (by omega)).1
      rw [show i + (w - i) = w by omega] at hs
      by_cases h2 : i % cap + (w - i) < cap
      · rw [if_pos h2] at hs
        rw [if_neg (by omega), if_neg (by omega)]
      · rw [if_neg h2] at hs
        rw [if_neg (by omega), if_neg (by omega)]

/-- the raw region holds the last `cap` bytes of the logical stream `W` -/
structure Rep (b : RB) (W : List Nat) : Prop where
  cap2 : 2 ≤ b.cap
  len : b.mem.length = b.cap
  w_eq : b.w = W.length
  r_le : b.r ≤ b.w
  occ : b.w - b.r ≤ b.cap - 1
  held : ∀ i (hi : i < W.length), W.length ≤ i + b.cap → b.mem[i % b.cap]? = some W[i]

theorem rep_create (cap : Nat) (h : 2 ≤ cap) : Rep (RB.create cap) [] := by
  refine ⟨h, ?_, rfl, Nat.le_refl _, ?_, ?_⟩
  · simp [RB.create]
  · simp [RB.create]
  · intro i hi; simp at hi

theorem Rep.held' {b : RB} {W : List Nat} (hr : Rep b W) (i : Nat) (hi : i < W.length)
    (h : W.length ≤ i + b.cap) : b.mem[i % b.cap]? = W[i]? := by
  rw [hr.held i hi h, List.getElem?_eq_getElem hi]

/-- `Write` accepts `min len free` bytes, appends them to the logical stream and keeps the
representation; the read pointer does not move. -/
theorem write_spec (b : RB) (W : List Nat) (hr : Rep b W) (d : List Nat) :
    ∃ b' n, write b d = some (b', n) ∧ n = min d.length (b.cap - 1 - (b.w - b.r)) ∧
      b'.r = b.r ∧ b'.cap = b.cap ∧ Rep b' (W ++ d.take n) := by
  have hocc := hr.occ
  have hrle := hr.r_le
  have hcap := hr.cap2
  have hw := hr.w_eq
  have hlen := hr.len
  obtain ⟨n, hn⟩ : ∃ n, n = min d.length (b.cap - 1 - (b.w - b.r)) := ⟨_, rfl⟩
  have hnd : n ≤ d.length := by omega
  have hnc : n < b.cap := by omega
  refine ⟨_, n, write_eq b d (by omega) n hn, hn, rfl, rfl, ?_⟩
  have hs := wmem_spec b.mem b.cap b.w n d hlen hnc hnd
  have hl : (W ++ List.take n d).length = b.w + n := by
    rw [List.length_append, List.length_take, ← hw]; omega
  refine ⟨hcap, hs.1, hl.symm, ?_, ?_, ?_⟩
  · show b.r ≤ b.w + n
    omega
  · show b.w + n - b.r ≤ b.cap - 1
    omega
  · intro i hi hic
    have hi : i < b.w + n := by rw [hl] at hi; exact hi
    have hic : b.w + n ≤ i + b.cap := by rw [hl] at hic; exact hic
    show (wmem b.mem b.cap b.w n d)[i % b.cap]? = _
    rw [wmem_log b.mem b.cap b.w n d hlen hnc hnd i hi hic, ← List.getElem?_eq_getElem]
    by_cases h : b.w ≤ i
    · rw [if_pos h, List.getElem?_append_right (by omega), ← hw, List.getElem?_take,
        if_pos (by omega)]
    · rw [if_neg h, List.getElem?_append_left (by omega)]
      exact hr.held' i (by omega) (by omega)

/-- `Read(size)` returns exactly the next `k = clamp size` bytes of the logical stream and
advances the read pointer by `k`. -/
theorem read_spec (b : RB) (W : List Nat) (hr : Rep b W) (size : Int) :
    let k := (min size ((b.w : Int) - b.r)).toNat
    (read b size).2 = (W.drop b.r).take k ∧ (read b size).1.r = b.r + k ∧
      (read b size).2.length = k ∧ (read b size).1.cap = b.cap ∧ Rep (read b size).1 W := by
  intro k
  have hocc := hr.occ
  have hrle := hr.r_le
  have hcap := hr.cap2
  have hw := hr.w_eq
  by_cases h0 : k = 0
  · rw [read_zero b size h0, h0]
    exact ⟨by simp, rfl, rfl, rfl, hr⟩
  · have hkle : k ≤ b.w - b.r := by omega
    rw [read_pos b size k rfl (by omega)]
    have hs := rdata_spec b.mem b.cap b.r k hr.len (by omega)
    refine ⟨?_, rfl, hs.1, rfl, ⟨hr.cap2, hr.len, hr.w_eq, ?_, ?_, hr.held⟩⟩
    · apply List.ext_getElem?
      intro j
      show (rdata b.mem b.cap b.r k)[j]? = _
      rw [List.getElem?_take]
      by_cases hj : j < k
      · rw [if_pos hj, hs.2 j hj, List.getElem?_drop]
        exact hr.held' (b.r + j) (by omega) (by omega)
      · rw [if_neg hj, List.getElem?_eq_none (by omega)]
    · show b.r + k ≤ b.w
      omega
    · show b.w - (b.r + k) ≤ b.cap - 1
      omega

theorem readMult_eq (b : RB) (W : List Nat) (hr : Rep b W) (k : Nat) :
    readMultipleOf b k =
      if k ≥ b.cap then none else some (read b ((k * ((b.w - b.r) / k) : Nat) : Int)) := by
  have hocc := hr.occ
  have hcap := hr.cap2
  unfold readMultipleOf bytesReadable
  rw [if_neg (by omega : ¬ b.w - b.r ≥ b.cap)]

/-- **C18_multiple_of_chunk**: a successful `ReadMultipleOf(k)` returns a multiple of `k` bytes. -/
theorem C18_multiple_of_chunk (b : RB) (W : List Nat) (hr : Rep b W) (k : Nat) (hk : 1 ≤ k)
    (b' : RB) (bs : List Nat) (h : readMultipleOf b k = some (b', bs)) :
    bs.length % k = 0 ∧ bs = (W.drop b.r).take bs.length ∧ b'.r = b.r + bs.length ∧ Rep b' W := by
  have _ := hk
  have hocc := hr.occ
  have hrle := hr.r_le
  have hcap := hr.cap2
  rw [readMult_eq b W hr k] at h
  split at h
  · cases h
  · have hmd := Nat.mul_div_le (b.w - b.r) k
    have hmm : k * ((b.w - b.r) / k) % k = 0 := Nat.mul_mod_right _ _
    generalize k * ((b.w - b.r) / k) = m at h hmd hmm
    have hs := read_spec b W hr (m : Int)
    have hm : (min (m : Int) ((b.w : Int) - b.r)).toNat = m := by omega
    simp only [hm] at hs
    have h' : read b (m : Int) = (b', bs) := Option.some.inj h
    rw [h'] at hs
    obtain ⟨h1, h2, h3, _, h5⟩ := hs
    simp only at h1 h2 h3 h5
    refine ⟨?_, ?_, ?_, h5⟩
    · rw [h3]; exact hmm
    · rw [h3]; exact h1
    · rw [h3]; exact h2

/-- **C18_stride_boundary**: `DiscardStride(k)` leaves the read position on a stride boundary. -/
theorem C18_stride_boundary (b : RB) (k : Nat) (hk : 1 ≤ k) : (discardStride b k).r % k = 0 := by
  have _ := hk
  unfold discardStride
  simp only
  split
  · have h := Nat.div_add_mod b.w k
    have e : b.w - b.w % k = k * (b.w / k) := by omega
    rw [e, Nat.mul_mod_right]
  · omega

/-- a discard is *forward* when the last stride boundary is not behind the read pointer -/
def Forward (b : RB) (k : Nat) : Prop := b.r ≤ b.w - b.w % k

theorem discard_spec (b : RB) (W : List Nat) (hr : Rep b W) (k : Nat) (hk : 1 ≤ k) (hf : Forward b k) :
    Rep (discardStride b k) W ∧ b.r ≤ (discardStride b k).r ∧ (discardStride b k).r ≤ b.w := by
  have _ := hk
  have e : (discardStride b k).r = b.w - b.w % k := by
    unfold discardStride
    simp only
    split <;> omega
  have hf' : b.r ≤ b.w - b.w % k := hf
  refine ⟨⟨hr.cap2, hr.len, hr.w_eq, ?_, ?_, hr.held⟩, ?_, ?_⟩
  · show (discardStride b k).r ≤ b.w
    omega
  · show b.w - (discardStride b k).r ≤ b.cap - 1
    have := hr.occ
    omega
  · omega
  · omega

/-- **even a backwards discard leaves a coherent ring** as long as fewer than `cap` bytes lie between
the stride boundary and the write position (always the case for strides `≤ cap − 1`): the buffer still
represents the accepted stream `W`, now read from the boundary on — so by `write_spec` / `read_spec` every
later write still refuses to overwrite unread bytes and every later read still returns the next bytes of
`W`.  (The known finding is only that the boundary may lie BEHIND the old read position, which re-delivers
bytes; the run-time oracle keeps judging from the new position on the strength of this theorem.) -/
theorem discard_spec_coherent (b : RB) (W : List Nat) (hr : Rep b W) (k : Nat) (hk : 1 ≤ k)
    (hc : b.w % k ≤ b.cap - 1) :
    Rep (discardStride b k) W ∧ (discardStride b k).r = b.w - b.w % k := by
  have _ := hk
  have e : (discardStride b k).r = b.w - b.w % k := by
    unfold discardStride
    simp only
    split <;> omega
  refine ⟨⟨hr.cap2, hr.len, hr.w_eq, ?_, ?_, hr.held⟩, e⟩
  · show (discardStride b k).r ≤ b.w
    omega
  · show b.w - (discardStride b k).r ≤ b.cap - 1
    omega

/-! ### Whole histories -/

/-- every discard of the history is forward, every stride and chunk size is ≥ 1 -/
def OkHist : RB → List Op → Prop
  | _, [] => True
  | b, o :: os =>
    (match o with
      | .discard k => 1 ≤ k ∧ Forward b k
      | .readMult k => 1 ≤ k
      | _ => True) ∧ OkHist (step b o).1 os

/-- bytes accepted by the writes of a run -/
def accepted : List Op → List Res → List Nat
  | .write d :: os, .wrote n :: rs => d.take n ++ accepted os rs
  | _ :: os, _ :: rs => accepted os rs
  | _, _ => []

/-- bytes returned by the reads of a run, concatenated -/
def delivered : List Res → List Nat
  | [] => []
  | .bytes bs :: rs => bs ++ delivered rs
  | _ :: rs => delivered rs

/-- keep the elements of `xs` whose mask bit is `true` -/
def keepMask : List Nat → List Bool → List Nat
  | x :: xs, m :: ms => if m then x :: keepMask xs ms else keepMask xs ms
  | _, _ => []

/-! ### Helpers for histories -/

/-- bytes accepted by one step -/
def acc1 : Op → Res → List Nat
  | .write d, .wrote n => d.take n
  | _, _ => []

/-- bytes delivered by one step -/
def del1 : Res → List Nat
  | .bytes bs => bs
  | _ => []

theorem accepted_cons (o : Op) (os : List Op) (r : Res) (rs : List Res) :
    accepted (o :: os) (r :: rs) = acc1 o r ++ accepted os rs := by
  cases o <;> cases r <;> simp [accepted, acc1]

theorem delivered_cons (r : Res) (rs : List Res) :
    delivered (r :: rs) = del1 r ++ delivered rs := by
  cases r <;> simp [delivered, del1]

theorem runOps_cons (b : RB) (o : Op) (os : List Op) :
    runOps b (o :: os) =
      ((runOps (step b o).1 os).1, (step b o).2 :: (runOps (step b o).1 os).2) := rfl

theorem keepMask_append (xs : List Nat) : ∀ (m1 : List Bool) (ys : List Nat) (m2 : List Bool),
    xs.length = m1.length → keepMask (xs ++ ys) (m1 ++ m2) = keepMask xs m1 ++ keepMask ys m2 := by
  induction xs with
  | nil =>
    intro m1 ys m2 h
    cases m1 with
    | nil => simp [keepMask]
    | cons _ _ => simp at h
  | cons x xs ih =>
    intro m1 ys m2 h
    cases m1 with
    | nil => simp at h
    | cons m ms =>
      have h' : xs.length = ms.length := by simpa using h
      cases m <;> simp [keepMask, ih ms ys m2 h']

theorem keepMask_alltrue (xs : List Nat) : ∀ (m : List Bool), m.length = xs.length →
    (∀ x ∈ m, x = true) → keepMask xs m = xs := by
  induction xs with
  | nil => intro m _ _; cases m <;> simp [keepMask]
  | cons x xs ih =>
    intro m h ht
    cases m with
    | nil => simp at h
    | cons m ms =>
      have hm : m = true := ht m (by simp)
      subst hm
      simp [keepMask, ih ms (by simpa using h) (fun x hx => ht x (by simp [hx]))]

theorem keepMask_false (xs : List Nat) : ∀ n, keepMask xs (List.replicate n false) = [] := by
  induction xs with
  | nil => intro n; cases n <;> simp [keepMask]
  | cons x xs ih =>
    intro n
    cases n with
    | zero => simp [keepMask]
    | succ n => simp [keepMask, List.replicate, ih n]

theorem window_split (L : List Nat) (a c e : Nat) (h1 : a ≤ c) (h2 : c ≤ e) :
    (L.drop a).take (e - a) = (L.drop a).take (c - a) ++ (L.drop c).take (e - c) := by
  have e1 : e - a = (c - a) + (e - c) := by omega
  rw [e1, List.take_add, List.drop_drop]
  congr 3; omega

/-- the per-step hypothesis of `OkHist` -/
def OkStep (b : RB) : Op → Prop
  | .discard k => 1 ≤ k ∧ Forward b k
  | .readMult k => 1 ≤ k
  | _ => True

theorem okHist_cons (b : RB) (o : Op) (os : List Op) :
    OkHist b (o :: os) ↔ OkStep b o ∧ OkHist (step b o).1 os := by
  cases o <;> simp [OkHist, OkStep]

/-- one step: keeps the representation, appends the accepted bytes, moves the read pointer
forward inside the stream; what it delivers is the skipped window (`m = true`) or nothing
(`m = false`, only for discards). -/
theorem step_spec (b : RB) (W : List Nat) (hr : Rep b W) (o : Op) (hok : OkStep b o) :
    Rep (step b o).1 (W ++ acc1 o (step b o).2) ∧ b.r ≤ (step b o).1.r ∧
      (step b o).1.r ≤ W.length ∧ (step b o).1.cap = b.cap ∧
      ∃ m : Bool, del1 (step b o).2 =
          keepMask ((W.drop b.r).take ((step b o).1.r - b.r))
            (List.replicate ((step b o).1.r - b.r) m) ∧
        ((∀ k, o ≠ .discard k) → m = true) := by
  have hw := hr.w_eq
  have hrle := hr.r_le
  -- reads, uniformly
  have hread : ∀ size : Int,
      Rep (read b size).1 W ∧ b.r ≤ (read b size).1.r ∧ (read b size).1.r ≤ W.length ∧
        (read b size).1.cap = b.cap ∧
        (read b size).2 = keepMask ((W.drop b.r).take ((read b size).1.r - b.r))
          (List.replicate ((read b size).1.r - b.r) true) := by
    intro size
    have hs := read_spec b W hr size
    simp only at hs
    obtain ⟨h1, h2, h3, h4, h5⟩ := hs
    have h6 := h5.r_le
    have h7 := h5.w_eq
    refine ⟨h5, by omega, by omega, h4, ?_⟩
    have e : (read b size).1.r - b.r = (min size ((b.w : Int) - b.r)).toNat := by omega
    rw [e, ← h1, keepMask_alltrue _ _ (by simp [h3]) (by simp)]
  cases o with
  | write d =>
    obtain ⟨b', n, h1, _, h3, h4, h5⟩ := write_spec b W hr d
    simp only [step, h1, acc1, del1]
    refine ⟨h5, by omega, by omega, h4, true, ?_, fun _ => rfl⟩
    simp [h3, keepMask]
  | read n =>
    obtain ⟨h1, h2, h3, h4, h5⟩ := hread n
    simp only [step, acc1, del1, List.append_nil]
    exact ⟨h1, h2, h3, h4, true, h5, fun _ => rfl⟩
  | readAll =>
    obtain ⟨h1, h2, h3, h4, h5⟩ := hread b.cap
    simp only [step, readAll, acc1, del1, List.append_nil]
    exact ⟨h1, h2, h3, h4, true, h5, fun _ => rfl⟩
  | readMult k =>
    by_cases hkc : k ≥ b.cap
    · simp only [step, readMult_eq b W hr k, if_pos hkc, acc1, del1, List.append_nil]
      refine ⟨hr, Nat.le_refl _, by omega, trivial, true, ?_, fun _ => rfl⟩
      simp [keepMask]
    · obtain ⟨h1, h2, h3, h4, h5⟩ := hread ((k * ((b.w - b.r) / k) : Nat) : Int)
      simp only [step, readMult_eq b W hr k, if_neg hkc, acc1, del1, List.append_nil]
      exact ⟨h1, h2, h3, h4, true, h5, fun _ => rfl⟩
  | discard k =>
    obtain ⟨hk, hf⟩ : 1 ≤ k ∧ Forward b k := hok
    obtain ⟨h1, h2, h3⟩ := discard_spec b W hr k hk hf
    simp only [step, acc1, del1, List.append_nil]
    refine ⟨h1, h2, by omega, rfl, false, ?_, fun h => absurd rfl (h k)⟩
    rw [keepMask_false]
  | reopen =>
    -- the reader handle is replaced; both pointers live in the shared description
    simp only [step, acc1, del1, List.append_nil]
    refine ⟨hr, Nat.le_refl _, by omega, trivial, true, ?_, fun _ => rfl⟩
    simp [keepMask]

/-- the history invariant, from an arbitrary represented state -/
theorem run_inv (ops : List Op) : ∀ (b : RB) (W : List Nat), Rep b W → OkHist b ops →
    Rep (runOps b ops).1 (W ++ accepted ops (runOps b ops).2) ∧ b.r ≤ (runOps b ops).1.r ∧
      ∃ mask : List Bool, mask.length = (runOps b ops).1.r - b.r ∧
        delivered (runOps b ops).2 =
          keepMask (((W ++ accepted ops (runOps b ops).2).drop b.r).take
            ((runOps b ops).1.r - b.r)) mask ∧
        ((∀ o ∈ ops, ∀ k, o ≠ .discard k) → ∀ x ∈ mask, x = true) := by
  induction ops with
  | nil =>
    intro b W hr _
    refine ⟨by simpa [runOps, accepted] using hr, Nat.le_refl _, [], by simp [runOps], ?_, ?_⟩
    · simp [runOps, delivered, keepMask]
    · intro _ x hx; simp at hx
  | cons o os ih =>
    intro b W hr hok
    rw [okHist_cons] at hok
    obtain ⟨hs1, hs2, hs3, _, m, hs5, hs6⟩ := step_spec b W hr o hok.1
    obtain ⟨hi1, hi2, mask', hi3, hi4, hi5⟩ := ih (step b o).1 _ hs1 hok.2
    rw [runOps_cons]
    simp only [accepted_cons, delivered_cons]
    generalize step b o = s1 at *
    generalize runOps s1.1 os = out at *
    rw [List.append_assoc] at hi1 hi4
    have hlen := hi1.w_eq
    have hrle := hi1.r_le
    refine ⟨hi1, by omega, List.replicate (s1.1.r - b.r) m ++ mask', ?_, ?_, ?_⟩
    · simp [hi3]; omega
    · rw [window_split _ b.r s1.1.r out.1.r hs2 hi2, keepMask_append _ _ _ _ (by simp; omega),
        ← hi4, hs5]
      congr 2
      rw [List.drop_append_of_le_length (by omega), List.take_append_of_le_length (by simp; omega)]
    · intro hno x hx
      rw [List.mem_append] at hx
      cases hx with
      | inl hx =>
        rw [List.mem_replicate] at hx
        rw [hx.2]
        exact hs6 (hno o (by simp))
      | inr hx => exact hi5 (fun o' ho' => hno o' (by simp [ho'])) x hx

theorem okHist_of_noDiscard (ops : List Op) : ∀ (b : RB),
    (∀ o ∈ ops, ∀ k, o ≠ .discard k) → (∀ o ∈ ops, ∀ k, o = .readMult k → 1 ≤ k) →
    OkHist b ops := by
  induction ops with
  | nil => intro b _ _; simp [OkHist]
  | cons o os ih =>
    intro b hno hk
    rw [okHist_cons]
    refine ⟨?_, ih _ (fun o' ho' => hno o' (by simp [ho'])) (fun o' ho' => hk o' (by simp [ho']))⟩
    cases o with
    | discard k => exact absurd rfl (hno _ (by simp) k)
    | readMult k => exact hk _ (by simp) k rfl
    | _ => trivial

/-- **C18_reads_prefix_of_writes** (histories without discards): the concatenation of all
bytes returned by reads is a prefix of the concatenation of all bytes accepted by writes —
exactly the first `r` of them — for every buffer size ≥ 2 and every operation sequence. -/
theorem C18_reads_prefix_of_writes (cap : Nat) (h2 : 2 ≤ cap) (ops : List Op)
    (hno : ∀ o ∈ ops, ∀ k, o ≠ .discard k) (hk : ∀ o ∈ ops, ∀ k, o = .readMult k → 1 ≤ k) :
    let out := runOps (RB.create cap) ops
    delivered out.2 = (accepted ops out.2).take out.1.r ∧ out.1.r ≤ (accepted ops out.2).length := by
  show delivered (runOps (RB.create cap) ops).2 =
      (accepted ops (runOps (RB.create cap) ops).2).take (runOps (RB.create cap) ops).1.r ∧
    (runOps (RB.create cap) ops).1.r ≤ (accepted ops (runOps (RB.create cap) ops).2).length
  obtain ⟨h1, _, mask, h3, h4, h5⟩ :=
    run_inv ops (RB.create cap) [] (rep_create cap h2) (okHist_of_noDiscard ops _ hno hk)
  have hl := h1.w_eq
  have hr := h1.r_le
  simp only [List.nil_append] at h1 h4 hl
  have e0 : (RB.create cap).r = 0 := rfl
  rw [e0, Nat.sub_zero] at h3
  rw [e0, Nat.sub_zero, List.drop_zero] at h4
  refine ⟨?_, by omega⟩
  rw [h4, keepMask_alltrue _ _ (by simp [h3]; omega) (h5 hno)]

/-- **C18_fifo_with_discards**: with forward discards, the delivered bytes are the accepted
stream restricted to the non-discarded positions, in order, each once: there is a mask over
the first `r` positions (false exactly on discarded positions) selecting the delivered bytes. -/
theorem C18_fifo_with_discards (cap : Nat) (h2 : 2 ≤ cap) (ops : List Op)
    (hok : OkHist (RB.create cap) ops) :
    let out := runOps (RB.create cap) ops
    ∃ mask : List Bool, mask.length = out.1.r ∧ out.1.r ≤ (accepted ops out.2).length ∧
      delivered out.2 = keepMask ((accepted ops out.2).take out.1.r) mask := by
  show ∃ mask : List Bool, mask.length = (runOps (RB.create cap) ops).1.r ∧
    (runOps (RB.create cap) ops).1.r ≤ (accepted ops (runOps (RB.create cap) ops).2).length ∧
    delivered (runOps (RB.create cap) ops).2 =
      keepMask ((accepted ops (runOps (RB.create cap) ops).2).take
        (runOps (RB.create cap) ops).1.r) mask
  obtain ⟨h1, _, mask, h3, h4, _⟩ := run_inv ops (RB.create cap) [] (rep_create cap h2) hok
  have hl := h1.w_eq
  have hr := h1.r_le
  simp only [List.nil_append] at h1 h4 hl
  have e0 : (RB.create cap).r = 0 := rfl
  rw [e0, Nat.sub_zero] at h3
  rw [e0, Nat.sub_zero, List.drop_zero] at h4
  exact ⟨mask, h3, by omega, h4⟩

/-- **C18_rewind_counterexample**: the forward hypothesis is needed.  cap 64: write 13 bytes,
`Read(10)`, `DiscardStride(8)`, `ReadAll` re-delivers bytes 8 and 9. -/
theorem C18_rewind_counterexample :
    let ops := [Op.write (List.range 13), .read 10, .discard 8, .readAll]
    delivered (runOps (RB.create 64) ops).2 = [0,1,2,3,4,5,6,7,8,9] ++ [8,9,10,11,12] := by
  decide

/-- non-vacuity: an ordinary wrapping history satisfies `OkHist` -/
example : OkHist (RB.create 4) [.write [1,2,3], .read 2, .write [4,5], .discard 2, .readAll] := by
  refine ⟨trivial, trivial, trivial, ⟨by decide, ?_⟩, trivial, trivial⟩
  show (_ : Nat) ≤ _
  decide

end DastardV.C18
