/-
C13 — per-record analysis values equal their definitions.

The theorems say: the one-pass FORMULAS of `AnalyzeData` (`code*` in `Model/C13.lean`, a loop-for-loop
transcription) equal the mathematical DEFINITIONS (`Spec.*`) for every record, every pre-trigger /
record length and every projector / basis matrix — over `Rat`, i.e. for the formulas, not for their
IEEE evaluation (that part is the differential run).
-/
import DastardV.Model.C13
import DastardV.Lemmas.C13Sums
import DastardV.Lemmas.C13Oracle
namespace DastardV.C13

/-! ### signed / unsigned interpretation of a raw sample -/

/-- `float64(int16(v))` is `v` below 2¹⁵ and `v − 2¹⁶` from 2¹⁵ on: the two's-complement reading,
in range, and congruent to the raw word; the unsigned reading is the raw word. -/
theorem signed_interp (v : Nat) (hv : v < 65536) :
    sampleVal true v = (if v < 32768 then (v : Int) else (v : Int) - 65536) ∧
    -32768 ≤ sampleVal true v ∧ sampleVal true v < 32768 ∧
    (sampleVal true v - (v : Int)) % 65536 = 0 ∧
    sampleVal false v = (v : Int) := by
  have hu : sampleVal false v = (v : Int) := by unfold sampleVal; simp
  have hm : (v : Int) % 65536 = v := by omega
  have hs : sampleVal true v = (if v < 32768 then (v : Int) else (v : Int) - 65536) := by
    unfold sampleVal toInt16
    simp only [if_true, hm]
    by_cases h : v < 32768
    · rw [if_pos h, if_pos (by omega)]
    · rw [if_neg h, if_neg (by omega)]
  refine ⟨hs, ?_, ?_, ?_, hu⟩ <;> (rw [hs]; split <;> omega)

example : sampleVal true 65535 = -1 ∧ sampleVal true 32768 = -32768 ∧ sampleVal true 32767 = 32767 ∧
    sampleVal false 65535 = 65535 := by decide

/-! ### pre-trigger mean and delta -/

theorem ptm_formula (pre : List Q) : codePtm pre = Spec.pretrigMean pre := by
  unfold codePtm Spec.pretrigMean meanQ
  rw [preLoop_eq]; simp only; congr 1; grind

/-- The code's `12·Σ(yᵢ−y₀)(i−x̄)/(n(n+1))` is the ordinary least-squares slope of the pre-trigger
samples against the sample index, times the span `n−1` — for every `n ≥ 2`.  (For `n ≤ 1` the code
reports NaN and no slope exists: `ptdelta_nan_iff`.) -/
theorem ptdelta_formula (pre : List Q) (hn : 2 ≤ pre.length) :
    codePtd pre = some (Spec.pretrigDelta pre) := by
  unfold codePtd
  rw [if_neg (by omega)]
  congr 1
  unfold Spec.pretrigDelta Spec.lsSlope
  simp only
  rw [preLoop_eq]
  have hn2 := natCast_ge_two hn
  generalize hN : (pre.length : Q) = n at *
  have hn0 : n ≠ 0 := by grind
  -- mean index
  have hxbar : isum (fun i _ => i) 0 pre / n = (n - 1) * (1 / 2) := by
    rw [isum_index, hN]; grind
  rw [hxbar]
  generalize hc : (n - 1) * (1 / 2) = c at *
  -- Σ (i − c) = 0
  have hz : isum (fun i _ => i - c) 0 pre = 0 := by
    rw [isum_idx, hN]; simp; grind
  -- both weighted sums are Σ yᵢ (i − c)
  rw [isum_shift_y, isum_shift_y', hz]
  -- Σ (i − c)²
  have hsq : isum (fun i _ => (i - c) * (i - c)) 0 pre = n * (n * n - 1) / 12 := by
    rw [isum_idx_sq, hN]; simp; grind
  rw [hsq]
  generalize isum (fun i y => y * (i - c)) 0 pre = S
  rw [Rat.natCast_mul, natCast_succ, hN]
  simp only
  grind

theorem ptdelta_nan_iff (pre : List Q) : codePtd pre = none ↔ pre.length ≤ 1 := by
  unfold codePtd; split <;> simp_all

example : codePtd [1, 3, 5, 7] = some 6 ∧ Spec.pretrigDelta [1, 3, 5, 7] = 6 := by
  refine ⟨?_, ?_⟩
  · rw [ptdelta_formula _ (by decide)]; congr 1
    simp [Spec.pretrigDelta, Spec.lsSlope, isum, meanQ, sumQ]; grind
  · simp [Spec.pretrigDelta, Spec.lsSlope, isum, meanQ, sumQ]; grind

/-! ### pulse average and RMS -/

theorem avg_formula (m : Q) (post : List Q) (hp : post ≠ []) :
    codeAvg m post = Spec.pulseAverage m post := by
  unfold codeAvg Spec.pulseAverage meanQ
  rw [postLoop_eq, sumQ_map_sub, List.length_map]
  simp only
  have hN : (post.length : Q) ≠ 0 := natCast_ne_zero (by
    intro h; exact hp (List.length_eq_zero_iff.mp h))
  grind

/-- `Σy²/N − 2m·(Σy/N) + m²` is the mean of `(y − m)²`. -/
theorem rms_formula_raw (m : Q) (post : List Q) (hp : post ≠ []) :
    codeMeanSquareRaw m post = Spec.pulseMeanSquare m post := by
  unfold codeMeanSquareRaw Spec.pulseMeanSquare meanQ
  rw [postLoop_eq, sumQ_map_sq_sub, List.length_map]
  simp only
  have hN : (post.length : Q) ≠ 0 := natCast_ne_zero (by
    intro h; exact hp (List.length_eq_zero_iff.mp h))
  grind

theorem meanSquare_nonneg (m : Q) (post : List Q) : 0 ≤ Spec.pulseMeanSquare m post := by
  unfold Spec.pulseMeanSquare meanQ
  rw [List.length_map, Rat.div_def]
  apply Rat.mul_nonneg (sumQ_sq_nonneg _ _)
  have : 0 ≤ (post.length : Q) := Rat.natCast_nonneg
  rcases Nat.eq_zero_or_pos post.length with h | h
  · rw [h]; simp
  · have hp : 0 < (post.length : Q) := Rat.natCast_pos.mpr h
    exact Rat.le_of_lt (Rat.inv_pos.mpr hp)

/-- The clamp `if meanSquare < 0 then 0` in front of the square root never changes the exact value:
it only absorbs rounding.  So the reported `pulseRMS²` is the mean of `(y − m)²`. -/
theorem rms_formula (m : Q) (post : List Q) (hp : post ≠ []) :
    codeMeanSquare m post = Spec.pulseMeanSquare m post := by
  unfold codeMeanSquare
  simp only
  rw [rms_formula_raw m post hp]
  have := meanSquare_nonneg m post
  split <;> grind

/-! ### peak -/

theorem codePeak_eq_spec (m : Q) (post : List Q) : codePeak m post = Spec.peak m post := by
  unfold codePeak
  rw [postLoop_eq]
  cases post with
  | nil => rfl
  | cons y ys => simp only [runMax_none_cons, Option.map_some, Spec.peak]

/-- The executable peak really is the peak: attained by a post-trigger sample, and no sample higher. -/
theorem spec_peak_isPeak (m : Q) (post : List Q) (p : Q) (h : Spec.peak m post = some p) :
    Spec.IsPeak m post p := by
  cases post with
  | nil => simp [Spec.peak] at h
  | cons y ys =>
    simp only [Spec.peak, Option.some.injEq] at h
    subst h
    constructor
    · rcases foldl_maxQ_mem y ys with h | h
      · exact ⟨y, List.mem_cons_self, by rw [h]⟩
      · exact ⟨_, List.mem_cons_of_mem _ h, rfl⟩
    · intro z hz
      rcases List.mem_cons.mp hz with rfl | hz'
      · have := le_foldl_maxQ z ys; grind
      · have := mem_le_foldl_maxQ y ys z hz'; grind

/-- `peak_def`: with at least one post-trigger sample the code's `max − ptm` (running maximum started
at −∞) is the peak of the baseline-subtracted pulse, whatever its sign. -/
theorem peak_def (m : Q) (post : List Q) (hp : post ≠ []) :
    ∃ p, codePeak m post = some p ∧ Spec.IsPeak m post p := by
  cases post with
  | nil => exact absurd rfl hp
  | cons y ys =>
    refine ⟨ys.foldl maxQ y - m, ?_, ?_⟩
    · rw [codePeak_eq_spec]; rfl
    · exact spec_peak_isPeak m (y :: ys) _ rfl

/-- A peak value is unique. -/
theorem isPeak_unique (m : Q) (post : List Q) (p q : Q)
    (hp : Spec.IsPeak m post p) (hq : Spec.IsPeak m post q) : p = q := by
  obtain ⟨⟨y, hy, rfl⟩, hple⟩ := hp
  obtain ⟨⟨z, hz, rfl⟩, hqle⟩ := hq
  have h1 := hple z hz
  have h2 := hqle y hy
  grind

/-! #### the formula before the `fix:` commit (running maximum started at the pre-trigger mean)

Kept as a record of the finding: that formula is `max 0 (peak)`; it equals the definition only under
the hypothesis that some post-trigger sample reaches the pre-trigger mean, and the hypothesis is
necessary. -/

theorem foldl_old_eq (m : Q) (vs : List Q) :
    vs.foldl (fun mx v => if v > mx then v else mx) m = vs.foldl maxQ m := by
  have : (fun (mx v : Q) => if v > mx then v else mx) = maxQ := by
    funext mx v; unfold maxQ; rfl
  rw [this]

theorem foldl_maxQ_assoc (a b : Q) (vs : List Q) :
    vs.foldl maxQ (maxQ a b) = maxQ a (vs.foldl maxQ b) := by
  induction vs generalizing a b with
  | nil => rfl
  | cons v vs ih =>
    simp only [List.foldl_cons]
    rw [← ih a (maxQ b v)]
    congr 1
    unfold maxQ; split <;> split <;> (try split) <;> (try split) <;> grind

/-- old formula = `max 0 (definition)` -/
theorem peak_old_is_clamped (m : Q) (post : List Q) (p : Q) (h : Spec.peak m post = some p) :
    codePeakOld m post = maxQ 0 p := by
  cases post with
  | nil => simp [Spec.peak] at h
  | cons y ys =>
    simp only [Spec.peak, Option.some.injEq] at h
    subst h
    unfold codePeakOld
    rw [foldl_old_eq, List.foldl_cons, foldl_maxQ_assoc]
    unfold maxQ; split <;> split <;> grind

/-- old formula = definition, under the hypothesis that the peak is not below the baseline -/
theorem peak_old_def_of_reaches_baseline (m : Q) (post : List Q) (p : Q)
    (h : Spec.peak m post = some p) (hreach : ∃ y ∈ post, m ≤ y) : codePeakOld m post = p := by
  rw [peak_old_is_clamped m post p h]
  have hp := spec_peak_isPeak m post p h
  obtain ⟨y, hy, hmy⟩ := hreach
  have := hp.2 y hy
  unfold maxQ; split <;> grind

/-- The full statement for the old formula (no hypothesis). -/
def C13_peak_old_full : Prop :=
  ∀ (m : Q) (post : List Q) (p : Q), Spec.peak m post = some p → codePeakOld m post = p

/-- … is false: pre-trigger mean 100, one post-trigger sample 90 — definition −10, old formula 0. -/
theorem peak_clamp_counterexample : ¬ C13_peak_old_full := by
  intro h
  have h1 := h 100 [90] (-10) (by simp [Spec.peak]; grind)
  have h2 := peak_old_is_clamped 100 [90] (-10) (by simp [Spec.peak]; grind)
  rw [h1] at h2
  unfold maxQ at h2
  split at h2 <;> grind

example : ∃ y ∈ [(90 : Q), 120], (100 : Q) ≤ y := ⟨120, by simp, by grind⟩

/-! ### projectors, basis -/

/-- Shapes accepted by `SetProjectorsBasis` are exactly the compatible ones: every projector row has
one entry per sample, the basis has one row per sample and one column per projector row. -/
theorem setPB_shapes (nsamp : Nat) (P B : Mat) (hP : P.wf) (hB : B.wf) :
    setPBok nsamp P B = true ↔
      ((∀ row ∈ P.rows, row.length = nsamp) ∧ B.rows.length = nsamp ∧
       (∀ row ∈ B.rows, row.length = P.rows.length) ∧ P.c = nsamp ∧ B.c = P.r ∧ B.r = nsamp) := by
  unfold setPBok
  obtain ⟨hPr, hPc⟩ := hP
  obtain ⟨hBr, hBc⟩ := hB
  simp only [Bool.and_eq_true, beq_iff_eq]
  constructor
  · rintro ⟨⟨h1, h2⟩, h3⟩
    refine ⟨fun row hr => by rw [hPc row hr, h1], by omega, fun row hr => by rw [hBc row hr]; omega, h1, h2, h3⟩
  · rintro ⟨_, _, _, h1, h2, h3⟩
    exact ⟨⟨h1, h2⟩, h3⟩

/-- `coefs_def`: the matrix-vector loop is `projectors × record` (row `k` ↦ `Σ_j P_kj x_j`), one
coefficient per projector row. -/
theorem coefs_def (P : List (List Q)) (x : List Q) :
    codeMulVec P x = Spec.coefs P x ∧ (codeMulVec P x).length = P.length := by
  unfold codeMulVec Spec.coefs Spec.matVec
  refine ⟨?_, by simp⟩
  apply List.map_congr_left
  intro row _
  rw [dotLoop_eq]; grind

/-- no term of the inner product is lost: for rows as long as the record, `dot` over the appended
vectors splits (so every `P_kj x_j`, `j < L`, is in the sum) -/
theorem dot_append (a₁ a₂ b₁ b₂ : List Q) (h : a₁.length = b₁.length) :
    Spec.dot (a₁ ++ a₂) (b₁ ++ b₂) = Spec.dot a₁ b₁ + Spec.dot a₂ b₂ := by
  unfold Spec.dot
  rw [List.zipWith_append h, sumQ_append]

theorem stdDevSq_def (r : List Q) (hr : r ≠ []) : codeStdDevSq r = some (Spec.popVar r) := by
  unfold codeStdDevSq Spec.popVar meanQ
  have hl : r.length ≠ 0 := fun h => hr (List.length_eq_zero_iff.mp h)
  rw [if_neg hl]
  simp only [foldl_add_eq, foldl_sq_eq, List.length_map]
  congr 1; grind

/-- population variance = mean of squares − square of the mean (the textbook identity; shows that
`Spec.popVar` is the usual population variance) -/
theorem popVar_alt (r : List Q) (hr : r ≠ []) :
    Spec.popVar r = meanQ (r.map fun v => v * v) - meanQ r * meanQ r := by
  unfold Spec.popVar meanQ
  simp only [List.length_map]
  rw [sumQ_map_sq_sub]
  have hN : (r.length : Q) ≠ 0 := natCast_ne_zero (fun h => hr (List.length_eq_zero_iff.mp h))
  grind

/-- `resid_std_def`: `MulVec`, `MulVec`, `SubVec`, two-pass `stdDev` compute the population variance of
`record − basis × (projectors × record)`. -/
theorem resid_std_def (P B : List (List Q)) (x : List Q) (hx : x ≠ []) (hB : B.length = x.length) :
    codeStdDevSq (codeSubVec x (codeMulVec B (codeMulVec P x))) = some (Spec.residVar P B x) := by
  rw [(coefs_def P x).1, (coefs_def B _).1, codeSubVec_eq]
  unfold Spec.residVar Spec.residual
  apply stdDevSq_def
  intro h
  have hl := congrArg List.length h
  simp only [List.length_zipWith, Spec.coefs, Spec.matVec, List.length_map, List.length_nil] at hl
  have : x.length ≠ 0 := fun h => hx (List.length_eq_zero_iff.mp h)
  omega

/-! ### the whole record -/

/-- Inputs in the property's domain.  `2 ≤ npre` is where a slope exists (the allowed minimum is 3);
`npre < len` is "at least one post-trigger sample"; when projectors are loaded the record has the
processor's length (otherwise the Go code panics deliberately); without projectors any length, shorter or
longer than configured (edge-multi variable-length records), is covered. -/
structure Valid (inp : Input) : Prop where
  npre2 : 2 ≤ inp.npre
  post : inp.npre < inp.data.length
  len : inp.pb ≠ none → inp.data.length = inp.nsamp
  wf : ∀ P B, inp.pb = some (P, B) → P.wf ∧ B.wf

/-- **Umbrella.**  For every record, every `2 ≤ npre < len`, signed or unsigned, and every projector /
basis pair: `AnalyzeData` does not fail, and every value it stores is the definition —
pre-trigger mean, slope × span, mean, mean square and peak of the baseline-subtracted pulse; with
matrices of compatible shape `projectors × record` and the population variance of
`record − basis × coefficients`; with incompatible shapes `SetProjectorsBasis` refuses and nothing is
loaded. -/
theorem C13_formulas_equal_definitions (inp : Input) (hv : Valid inp) :
    let x := dataVec inp.signed inp.data
    let pre := x.take inp.npre
    let post := x.drop inp.npre
    ∃ out, analyze inp = .ok out ∧
      out.ptm = Spec.pretrigMean pre ∧
      out.ptd = some (Spec.pretrigDelta pre) ∧
      out.avg = Spec.pulseAverage out.ptm post ∧
      out.ms = Spec.pulseMeanSquare out.ptm post ∧
      Spec.IsPeak out.ptm post out.peak ∧
      (match inp.pb with
       | none => out.setErr = false ∧ out.coefs = none ∧ out.rvar = none
       | some (P, B) =>
         if setPBok inp.nsamp P B then
           out.setErr = false ∧ out.coefs = some (Spec.coefs P.rows x) ∧
           out.rvar = some (Spec.residVar P.rows B.rows x)
         else out.setErr = true ∧ out.coefs = none ∧ out.rvar = none) := by
  intro x pre post
  obtain ⟨h2, hpost, hlen, hwf⟩ := hv
  have hxl : x.length = inp.data.length := by simp [x, dataVec]
  have hprelen : pre.length = inp.npre := by simp [pre, List.length_take]; omega
  have hpostne : post ≠ [] := by
    intro h
    have := congrArg List.length h
    simp [post, List.length_drop] at this; omega
  obtain ⟨pk, hpk, hispk⟩ := peak_def (codePtm pre) post hpostne
  have hguard : ¬ (inp.npre = 0 ∨ x.length ≤ inp.npre) := by omega
  unfold analyze
  simp only [show dataVec inp.signed inp.data = x from rfl]
  rw [if_neg hguard]
  simp only [show List.take inp.npre x = pre from rfl, show List.drop inp.npre x = post from rfl, hpk]
  have hbase : codePtm pre = Spec.pretrigMean pre := ptm_formula pre
  have hptd : codePtd pre = some (Spec.pretrigDelta pre) := ptdelta_formula pre (by omega)
  have havg := avg_formula (codePtm pre) post hpostne
  have hms := rms_formula (codePtm pre) post hpostne
  cases hpb : inp.pb with
  | none =>
    exact ⟨_, rfl, hbase, hptd, havg, hms, hispk, rfl, rfl, rfl⟩
  | some pb =>
    obtain ⟨P, B⟩ := pb
    simp only
    obtain ⟨hPwf, hBwf⟩ := hwf P B hpb
    have hlen := hlen (by rw [hpb]; simp)
    by_cases hok : setPBok inp.nsamp P B = true
    · have hs := (setPB_shapes inp.nsamp P B hPwf hBwf).mp hok
      have hPc : P.c = x.length := by rw [hs.2.2.2.1, hxl, hlen]
      simp only [hok, Bool.not_true, Bool.false_eq_true, if_false, hPc, ne_eq, not_true_eq_false, if_true]
      have hxne : x ≠ [] := by
        intro h; rw [h] at hxl; simp at hxl; omega
      have hres := resid_std_def P.rows B.rows x hxne (by rw [hs.2.1, hxl, hlen])
      rw [hres]
      refine ⟨_, rfl, hbase, hptd, havg, hms, hispk, rfl, ?_, rfl⟩
      simp only [(coefs_def P.rows x).1]
    · have hok' : setPBok inp.nsamp P B = false := by simpa using hok
      simp only [hok', Bool.not_false, if_true, Bool.false_eq_true, if_false]
      exact ⟨_, rfl, hbase, hptd, havg, hms, hispk, rfl, rfl, rfl⟩

/-- Every analysis value, and the oracle's verdict, depends only on the RECORD (its own `presamples`, its
samples) and on the loaded matrices — never on the processor's configured pre-trigger length.  (Edge-multi
variable-length records are shorter than configured.) -/
theorem analyze_record_only (inp : Input) (k : Nat) :
    analyze { inp with cfgNpre := k } = analyze inp ∧
    ∀ o, chkC13 { inp with cfgNpre := k } o = chkC13 inp o := ⟨rfl, fun _ => rfl⟩

/-- … and without projectors not on the configured record length either. -/
theorem analyze_record_only_len (inp : Input) (h : inp.pb = none) (k n : Nat) :
    analyze { inp with cfgNpre := k, nsamp := n } = analyze inp := by
  unfold analyze; simp only [h]

/-! ### request histories: a refused request changes nothing -/

/-- A `SetProjectorsBasis` request that is refused (shapes not compatible) is the identity on the processor: same
lengths, same loaded model (or none) — hence every later record is analysed exactly as it would have been without
the request, and a whole history gives the same state with the refused request left out. -/
theorem C13_refused_model_is_identity (p : Proc) (P B : Mat) (h : setPBok p.nsamp P B = false) :
    p.step (.load P B) = (p, true) ∧
    (∀ recNpre signed data, (p.step (.load P B)).1.analyze recNpre signed data = p.analyze recNpre signed data) ∧
    (∀ qs, p.run (.load P B :: qs) = p.run qs) := by
  have hs : p.step (.load P B) = (p, true) := by simp [Proc.step, h]
  refine ⟨hs, ?_, ?_⟩
  · intro a b c; rw [hs]
  · intro qs; simp only [Proc.run, hs]

/-- an accepted request installs exactly the requested pair -/
theorem C13_accepted_model_is_installed (p : Proc) (P B : Mat) (h : setPBok p.nsamp P B = true) :
    p.step (.load P B) = ({ p with model := some (P, B) }, false) := by
  simp [Proc.step, h]

/-! ### the oracle and the theorem are about the same thing

`chkC13` (the function that judges the REAL code's output on every run) accepts every output that
reports exactly the model's values — hence, by the umbrella theorem, exactly the definitions.  So an
alarm of the oracle on the implementation can only come from the implementation's deviation from the
definitions beyond the rounding tolerances, never from the oracle disagreeing with the theorems. -/

/-- `o` reports exactly the values of `m` (square roots taken exactly) -/
structure Exact (m : Out) (o : ImplOut) : Prop where
  ptm : o.ptm = .fin m.ptm
  ptd : ∀ d, m.ptd = some d → o.ptd = .fin d
  avg : o.avg = .fin m.avg
  peak : o.peak = .fin m.peak
  rms : ∃ s, o.rms = .fin s ∧ 0 ≤ s ∧ s * s = m.ms
  coefs : ∀ c, m.coefs = some c → o.coefs = c.map FV.fin
  rsd : ∀ v, m.rvar = some v → ∃ s, o.rsd = .fin s ∧ 0 ≤ s ∧ s * s = v

theorem pulseAverage_eq (m : Q) (post : List Q) (hp : post ≠ []) :
    Spec.pulseAverage m post = meanQ post - m := by
  unfold Spec.pulseAverage meanQ
  rw [sumQ_map_sub, List.length_map]
  have hN : (post.length : Q) ≠ 0 := natCast_ne_zero (by
    intro h; exact hp (List.length_eq_zero_iff.mp h))
  grind

theorem C13_oracle_accepts_exact (inp : Input) (hv : Valid inp) (m : Out) (hm : analyze inp = .ok m)
    (o : ImplOut) (he : Exact m o) : chkC13 inp o = none := by
  obtain ⟨out, hout, hptm, hptd, havg, hms, hpk, hmat⟩ := C13_formulas_equal_definitions inp hv
  rw [hm] at hout
  cases hout
  obtain ⟨h2, hpost, hlen, hwf⟩ := hv
  obtain ⟨eptm, eptd, eavg, epeak, ⟨s, erms, hs0, hss⟩, ecoefs, ersd⟩ := he
  unfold chkC13 chkC13With
  generalize hx : dataVec inp.signed inp.data = x at *
  have hxl : x.length = inp.data.length := by rw [← hx]; simp [dataVec]
  simp only
  rw [if_neg (by omega)]
  generalize hpre : List.take inp.npre x = pre at *
  generalize hpo : List.drop inp.npre x = post at *
  have hprelen : pre.length = inp.npre := by rw [← hpre]; simp [List.length_take]; omega
  have hpostne : post ≠ [] := by
    intro h
    have := congrArg List.length h
    rw [← hpo] at this
    simp [List.length_drop] at this; omega
  cases hpc : post with
  | nil => exact absurd hpc hpostne
  | cons y ys =>
    rw [← hpc]
    have hmk : mkRef pre post = some
        { m := Spec.pretrigMean pre, d := some (Spec.pretrigDelta pre), a := meanQ post,
          q2 := meanQ (post.map fun v => v * v), ms := Spec.pulseMeanSquare (Spec.pretrigMean pre) post,
          mx := ys.foldl maxQ y } := by
      rw [hpc]; unfold mkRef; simp only
      rw [if_neg (by omega)]
    rw [hmk]
    simp only
    -- the peak: the model's value is the attained maximum minus the mean
    have hpeak : m.peak = ys.foldl maxQ y - Spec.pretrigMean pre := by
      have h1 : Spec.IsPeak m.ptm post (ys.foldl maxQ y - m.ptm) :=
        spec_peak_isPeak m.ptm post _ (by rw [hpc]; rfl)
      rw [← hptm]
      exact isPeak_unique m.ptm post _ _ hpk h1
    have hu := u53_nonneg
    have e1 : chkVal "C13:pretrig-mean" o.ptm (Spec.pretrigMean pre) (2 * u53 * absQ (Spec.pretrigMean pre)) = none := by
      rw [eptm, hptm]; apply chkVal_exact
      exact Rat.mul_nonneg (Rat.mul_nonneg (by decide) hu) (absQ_nonneg _)
    have e2 : chkVal "C13:pretrig-delta" o.ptd (Spec.pretrigDelta pre) (4 * u53 * absQ (Spec.pretrigDelta pre)) = none := by
      rw [eptd _ hptd]; apply chkVal_exact
      exact Rat.mul_nonneg (Rat.mul_nonneg (by decide) hu) (absQ_nonneg _)
    have e3 : chkVal "C13:pulse-average" o.avg (meanQ post - Spec.pretrigMean pre)
        (4 * u53 * (absQ (meanQ post) + absQ (Spec.pretrigMean pre))) = none := by
      rw [eavg, havg, hptm, pulseAverage_eq _ _ hpostne]; apply chkVal_exact
      exact Rat.mul_nonneg (Rat.mul_nonneg (by decide) hu) (Rat.add_nonneg (absQ_nonneg _) (absQ_nonneg _))
    have e4 : chkVal "C13:peak" (.fin m.peak) (ys.foldl maxQ y - Spec.pretrigMean pre)
        (4 * u53 * (absQ (ys.foldl maxQ y) + absQ (Spec.pretrigMean pre))) = none := by
      rw [hpeak]; apply chkVal_exact
      exact Rat.mul_nonneg (Rat.mul_nonneg (by decide) hu) (Rat.add_nonneg (absQ_nonneg _) (absQ_nonneg _))
    have hq2 : 0 ≤ meanQ (post.map fun v => v * v) := meanQ_nonneg _ (sumQ_mul_self_nonneg post)
    have e5 : within (s * s) (Spec.pulseMeanSquare (Spec.pretrigMean pre) post)
        (16 * u53 * (meanQ (post.map fun v => v * v) + 2 * absQ (Spec.pretrigMean pre * meanQ post)
          + Spec.pretrigMean pre * Spec.pretrigMean pre) + 4 * u53 * (s * s)) = true := by
      rw [hss, hms, hptm]; apply within_self
      apply Rat.add_nonneg
      · apply Rat.mul_nonneg (Rat.mul_nonneg (by decide) hu)
        apply Rat.add_nonneg (Rat.add_nonneg hq2 _) (mul_self_nonneg _)
        exact Rat.mul_nonneg (by decide) (absQ_nonneg _)
      · rw [← hptm, ← hms, ← hss]
        exact Rat.mul_nonneg (Rat.mul_nonneg (by decide) hu) (mul_self_nonneg s)
    rw [e1, e2, e3, epeak, erms]
    simp only [e4, e5, hs0, and_self, if_true]
    have hnotclamp : ¬ (ys.foldl maxQ y - Spec.pretrigMean pre < 0 ∧ m.peak = 0) := by
      rw [hpeak]; intro h; grind
    rw [if_neg hnotclamp]
    simp only [firstSome]
    -- the linear-model part
    unfold matRefOf
    cases hpb : inp.pb with
    | none => rfl
    | some pb =>
      obtain ⟨P, B⟩ := pb
      rw [hpb] at hmat
      simp only at hmat ⊢
      by_cases hok : setPBok inp.nsamp P B = true
      · rw [if_pos hok] at hmat
        obtain ⟨_, hc, hr⟩ := hmat
        obtain ⟨hPwf, hBwf⟩ := hwf P B hpb
        have hlen := hlen (by rw [hpb]; simp)
        have hsh := (setPB_shapes inp.nsamp P B hPwf hBwf).mp hok
        have hPc : P.c = inp.data.length := by rw [hsh.2.2.2.1, hlen]
        rw [if_neg (by simp [hok, hPc])]
        simp only [mkMatRef, hx]
        rw [ecoefs _ hc]
        rw [if_neg (show ¬ ((List.map FV.fin (Spec.coefs P.rows x)).length ≠ (Spec.coefs P.rows x).length) by simp)]
        rw [coefs_exact "C13:model-coef" _ _ (by
          intro t ht
          obtain ⟨row, _, rfl⟩ := List.mem_map.mp ht
          exact coefTol_nonneg row x)]
        simp only
        obtain ⟨sr, er, hsr0, hsrr⟩ := ersd _ hr
        rw [er]
        exact chkRoot_exact _ _ _ _ hsr0 hsrr (residBand_brackets _ _ _ _ _ _ hsr0)
      · have hok' : setPBok inp.nsamp P B = false := by simpa using hok
        rw [if_pos (by simp [hok'])]

/-- non-vacuity of `Exact`: the unsigned record `0 0 | 3 3` has mean 0, delta 0, average 3, RMS 3, peak 3 -/
example : ∃ m o, analyze { npre := 2, cfgNpre := 2, nsamp := 4, signed := false, data := [0, 0, 3, 3], pb := none } = .ok m ∧
    Exact m o := by
  have hv : Valid { npre := 2, cfgNpre := 2, nsamp := 4, signed := false, data := [0, 0, 3, 3], pb := none } :=
    ⟨by decide, by decide, fun _ => rfl, by intro P B h; cases h⟩
  obtain ⟨out, hout, hptm, hptd, havg, hms, hpk, hmat⟩ := C13_formulas_equal_definitions _ hv
  have hx : dataVec false [0, 0, 3, 3] = [0, 0, 3, 3] := by
    simp [dataVec, sampleVal]
  simp only [hx, List.take, List.drop] at hptm hptd havg hms hpk hmat
  have h0 : out.ptm = 0 := by
    rw [hptm]; simp [Spec.pretrigMean, meanQ, sumQ]; grind
  have hms3 : (3 : Q) * 3 = out.ms := by
    rw [hms, h0]; simp [Spec.pulseMeanSquare, meanQ, sumQ]; grind
  refine ⟨out, { setErr := false, ptm := .fin out.ptm, ptd := .fin (Spec.pretrigDelta [0, 0]),
                 avg := .fin out.avg, rms := .fin 3, peak := .fin out.peak, coefs := [], rsd := .fin 0,
                 summary := none, coefBits := [] }, hout, ?_⟩
  refine ⟨rfl, ?_, rfl, rfl, ⟨3, rfl, by decide, hms3⟩, ?_, ?_⟩
  · intro d hd; rw [hptd] at hd; cases hd; rfl
  · intro c hc; rw [hmat.2.1] at hc; cases hc
  · intro v hv'; rw [hmat.2.2] at hv'; cases hv'

/-- non-vacuity: an ordinary signed record with a 2-row projector satisfies `Valid` -/
example : Valid { npre := 3, cfgNpre := 7, nsamp := 5, signed := true, data := [65535, 65535, 65535, 2, 5],
                  pb := some (⟨2, 5, [[1, 0, 0, 0, 0], [0, 0, 0, 1, 1]]⟩,
                              ⟨5, 2, [[1, 0], [1, 0], [1, 0], [0, 1], [0, 1]]⟩) } := by
  refine ⟨by decide, by decide, fun _ => rfl, ?_⟩
  intro P B h
  simp only [Option.some.injEq, Prod.mk.injEq] at h
  obtain ⟨rfl, rfl⟩ := h
  refine ⟨⟨rfl, ?_⟩, ⟨rfl, ?_⟩⟩
  · intro row hr
    simp only [List.mem_cons, List.mem_nil_iff, or_false] at hr
    rcases hr with h | h <;> (subst h; rfl)
  · intro row hr
    simp only [List.mem_cons, List.mem_nil_iff, or_false] at hr
    rcases hr with h | h | h | h | h <;> (subst h; rfl)

end DastardV.C13
