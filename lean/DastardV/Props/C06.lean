/-
C06 — property theorems for the write-control model (`Model/C06.lean`).

The oracle `chkStep`/`chkRun` (the property statement evaluated on observations: reported state,
stored record counts, open files) is what judges the implementation at run time.  Here it is proved
that the MODEL satisfies it for every history of requests / publications / projector loads, from
every initial configuration (any number of channels, any projector assignment, any set of existing
run directories), via the invariant `Good` (writers and channel pause flags are functions of the
reported state).
-/
import DastardV.Model.C06
namespace DastardV.C06

/-! ### Stored records -/

theorem fkey_eq (r : Run) (ch : Nat) (t : FT) (k : FKey) :
    ((⟨r, ch, t⟩ : FKey) = k) ↔ (r = k.run ∧ ch = k.ch ∧ t = k.ft) := by
  cases k; simp

theorem stored_addFor (fs : Files) (c : Chan) (ch n : Nat) (t : FT) (k : FKey) :
    stored (addFor fs c ch n t) k =
      stored fs k + (if c.writer t = some k.run ∧ k.ch = ch ∧ k.ft = t then n else 0) := by
  unfold addFor
  cases h : c.writer t with
  | none => simp
  | some r =>
    simp only [stored, fkey_eq]
    by_cases h1 : r = k.run ∧ ch = k.ch ∧ t = k.ft
    · obtain ⟨a, b, d⟩ := h1
      subst a b d
      simp; omega
    · rw [if_neg h1, if_neg]
      · omega
      · intro ⟨a, b, d⟩
        exact h1 ⟨(Option.some.inj a), b.symm, d.symm⟩

/-- records file `k` gains when channel `c` (number `ch`) publishes `n` records -/
def contrib (c : Chan) (ch n : Nat) (k : FKey) : Nat :=
  if c.paused = false ∧ c.writer k.ft = some k.run ∧ k.ch = ch then n else 0

theorem hasWriter_of_writer (c : Chan) (t : FT) (r : Run) (h : c.writer t = some r) :
    c.hasWriter = true := by
  cases t <;> simp [Chan.writer] at h <;> simp [Chan.hasWriter, h]

theorem stored_pubChan (fs : Files) (ch : Nat) (c : Chan) (n : Nat) (k : FKey) :
    stored (pubChan fs ch c n).2 k = stored fs k + contrib c ch n k := by
  unfold pubChan contrib
  by_cases hn : n = 0
  · subst hn; simp
  · rw [if_neg hn]
    by_cases hp : c.paused = true
    · simp [hp]
    · have hp' : c.paused = false := by simpa using hp
      rw [if_neg hp]
      by_cases hw : c.hasWriter = true
      · simp only [hw, Bool.not_true, Bool.false_eq_true, if_false, stored_addFor, hp', true_and]
        cases hk : k.ft <;> simp <;> omega
      · have hw' : c.hasWriter = false := by simpa using hw
        simp only [hw', Bool.not_false, if_true]
        rw [if_neg]
        · rfl
        · intro ⟨_, h2, _⟩
          rw [hasWriter_of_writer c _ _ h2] at hw'
          cases hw'

def contribAll : Nat → List Chan → List Nat → FKey → Nat
  | _, [], _, _ => 0
  | i, c :: cs, ns, k => contrib c i (ns.headD 0) k + contribAll (i + 1) cs ns.tail k

theorem stored_pubAll (cs : List Chan) : ∀ (i : Nat) (ns : List Nat) (fs : Files) (k : FKey),
    stored (pubAll i cs ns fs).2 k = stored fs k + contribAll i cs ns k := by
  induction cs with
  | nil => intro i ns fs k; simp [pubAll, contribAll]
  | cons c cs ih =>
    intro i ns fs k
    simp only [pubAll, contribAll]
    rw [ih, stored_pubChan]
    omega

/-- `pubAll` changes nothing but the written counters -/
theorem pubAll_chans (cs : List Chan) : ∀ (i : Nat) (ns : List Nat) (fs : Files),
    ∀ c' ∈ (pubAll i cs ns fs).1, ∃ c ∈ cs, ∃ m, c' = { c with nw := m } := by
  induction cs with
  | nil => intro i ns fs c' h; simp [pubAll] at h
  | cons c cs ih =>
    intro i ns fs c' h
    simp only [pubAll, List.mem_cons] at h
    cases h with
    | inl h =>
      refine ⟨c, by simp, (pubChan fs i c (ns.headD 0)).1.nw, ?_⟩
      rw [h]
      unfold pubChan
      split
      · rfl
      · split
        · rfl
        · split <;> rfl
    | inr h =>
      obtain ⟨c0, hc0, m, hm⟩ := ih _ _ _ c' h
      exact ⟨c0, by simp [hc0], m, hm⟩

theorem pubChan_elig (fs : Files) (i : Nat) (c : Chan) (n : Nat) :
    (pubChan fs i c n).1.elig = c.elig ∧ (pubChan fs i c n).1.proj = c.proj := by
  unfold pubChan
  split
  · exact ⟨rfl, rfl⟩
  · split
    · exact ⟨rfl, rfl⟩
    · split <;> exact ⟨rfl, rfl⟩

theorem pubAll_elig (cs : List Chan) : ∀ (i : Nat) (ns : List Nat) (fs : Files),
    (pubAll i cs ns fs).1.map (·.elig) = cs.map (·.elig) ∧
    (pubAll i cs ns fs).1.map (·.proj) = cs.map (·.proj) := by
  induction cs with
  | nil => intro i ns fs; simp [pubAll]
  | cons c cs ih =>
    intro i ns fs
    simp only [pubAll, List.map_cons]
    rw [(ih _ _ _).1, (ih _ _ _).2, (pubChan_elig fs i c _).1, (pubChan_elig fs i c _).2]
    exact ⟨rfl, rfl⟩

/-! ### The invariant -/

/-- writers and the channel's pause flag are functions of the reported state -/
def GoodChan (w : WS) (c : Chan) : Prop :=
  c.w22 = (if w.active && w.l22 then w.pat else none) ∧
  c.w3 = (if w.active && w.l3 then w.pat else none) ∧
  c.woff = (if w.active && w.off && c.elig then w.pat else none) ∧
  (c.hasWriter = true → c.paused = w.paused)

def Good (s : St) : Prop :=
  ((s.ws.active = true → s.ws.pat.isSome = true) ∧ (s.running = false → s.ws.active = false)) ∧
    ∀ c ∈ s.chans, GoodChan s.ws c

theorem good_init (proj : List Bool) (pre : List Run) (nums : List Int) (blocked : List Nat) (lens : Int × Int) : Good (St.init proj pre nums blocked lens) := by
  refine ⟨by simp [St.init], ?_⟩
  intro c hc
  simp only [St.init, List.mem_map] at hc
  obtain ⟨p, _, rfl⟩ := hc
  simp [GoodChan, Chan.new, St.init, Chan.hasWriter]

/-- under the invariant a channel stores exactly what the reported state demands -/
theorem contrib_eq_exp1 (w : WS) (c : Chan) (h : GoodChan w c) (ch n : Nat) (k : FKey) : contrib c ch n k = exp1 w c.elig ch n k := by
  obtain ⟨h1, h2, h3, h4⟩ := h
  unfold contrib exp1
  by_cases hch : k.ch = ch
  case neg => simp [hch]
  case pos =>
    simp only [hch, and_true, decide_true, Bool.and_true]
    cases hact : w.active
    · -- not active: no writers
      simp only [hact, Bool.false_and] at h1 h2 h3
      have : c.writer k.ft = none := by cases k.ft <;> simp [Chan.writer, h1, h2, h3]
      simp [this]
    · simp only [hact, Bool.true_and] at h1 h2 h3 ⊢
      by_cases hwr : c.writer k.ft = some k.run
      · -- the writer exists: the channel flag equals the reported flag
        have hpz := h4 (hasWriter_of_writer c _ _ hwr)
        have hen : w.pat = some k.run ∧ w.enabled k.ft = true ∧ (k.ft ≠ .off ∨ c.elig = true) := by
          cases hk : k.ft <;> simp only [hk, Chan.writer] at hwr
          · rw [h1] at hwr
            by_cases hl : w.l22 = true
            · simp [hl] at hwr; simp [hwr, WS.enabled, hl]
            · simp [hl] at hwr
          · rw [h2] at hwr
            by_cases hl : w.l3 = true
            · simp [hl] at hwr; simp [hwr, WS.enabled, hl]
            · simp [hl] at hwr
          · rw [h3] at hwr
            by_cases hl : (w.off && c.elig) = true
            · simp only [hl, if_true] at hwr
              simp only [Bool.and_eq_true] at hl
              simp [hwr, WS.enabled, hl.1, hl.2]
            · simp [hl] at hwr
        obtain ⟨e1, e2, e3⟩ := hen
        rw [hpz]
        cases hpa : w.paused
        · cases e3 with
          | inl e => simp [hwr, e1, e2, e]
          | inr e => simp [hwr, e1, e2, e]
        · simp
      · -- no writer for this file: one of the reported conditions fails
        rw [if_neg (fun hh => hwr hh.2)]
        by_cases hcond : (!w.paused && decide (w.pat = some k.run) && w.enabled k.ft &&
            (decide (k.ft ≠ FT.off) || c.elig)) = true
        · exfalso
          simp only [Bool.and_eq_true, decide_eq_true_eq, Bool.or_eq_true] at hcond
          obtain ⟨⟨⟨_, e1⟩, e2⟩, e3⟩ := hcond
          apply hwr
          cases hk : k.ft <;> simp only [hk, Chan.writer, WS.enabled] at e2 e3 ⊢
          · rw [h1, e2]; simpa using e1
          · rw [h2, e2]; simpa using e1
          · have : c.elig = true := by
              cases e3 with
              | inl e => simp at e
              | inr e => exact e
            rw [h3, e2, this]; simpa using e1
        · rw [if_neg hcond]

theorem contribAll_eq_expAll (w : WS) (cs : List Chan) :
    ∀ (i : Nat) (ns : List Nat) (k : FKey), (∀ c ∈ cs, GoodChan w c) →
      contribAll i cs ns k = expAll w i (cs.map (·.elig)) ns k := by
  induction cs with
  | nil => intro i ns k _; simp [contribAll, expAll]
  | cons c cs ih =>
    intro i ns k h
    simp only [contribAll, expAll, List.map_cons]
    rw [contrib_eq_exp1 w c (h c (by simp)), ih _ _ _ (fun c' hc' => h c' (by simp [hc']))]

/-! ### Steps preserve the invariant -/

theorem setProj_chans (cs : List Chan) : ∀ (i : Nat),
    ∀ c' ∈ setProj cs i, ∃ c ∈ cs, ∃ p, c' = { c with proj := p } := by
  induction cs with
  | nil => intro i c' h; simp [setProj] at h
  | cons c cs ih =>
    intro i c' h
    cases i with
    | zero =>
      simp only [setProj, List.mem_cons] at h
      cases h with
      | inl h => exact ⟨c, by simp, true, h⟩
      | inr h => exact ⟨c', by simp [h], c'.proj, rfl⟩
    | succ i =>
      simp only [setProj, List.mem_cons] at h
      cases h with
      | inl h => exact ⟨c, by simp, c.proj, by rw [h]⟩
      | inr h =>
        obtain ⟨c0, hc0, p, hp⟩ := ih i c' h
        exact ⟨c0, by simp [hc0], p, hp⟩

theorem setProj_maps (cs : List Chan) : ∀ (i : Nat),
    (setProj cs i).map (·.elig) = cs.map (·.elig) ∧
    (setProj cs i).map (·.proj) = setTrue (cs.map (·.proj)) i := by
  induction cs with
  | nil => intro i; simp [setProj, setTrue]
  | cons c cs ih =>
    intro i
    cases i with
    | zero => simp [setProj, setTrue]
    | succ i => simp [setProj, setTrue, (ih i).1, (ih i).2]

theorem goodChan_start (w : WS) (c : Chan) (hw : c.hasWriter = false) (r : Run) (l22 off l3 : Bool) :
    GoodChan { active := true, paused := false, base := w.base, pat := some r, l22, off, l3 }
      (c.start r l22 off l3) := by
  have h1 : c.w22 = none := by
    cases h : c.w22 <;> simp [Chan.hasWriter, h] at hw ⊢
  have h2 : c.w3 = none := by
    cases h : c.w3 <;> simp [Chan.hasWriter, h] at hw ⊢
  have h3 : c.woff = none := by
    cases h : c.woff <;> simp [Chan.hasWriter, h] at hw ⊢
  cases l22 <;> cases off <;> cases l3 <;> cases hp : c.proj <;>
    simp [GoodChan, Chan.start, Chan.setLJH22, Chan.setLJH3, Chan.setOFF, Chan.hasWriter, h1, h2, h3, hp]

theorem reqStep_rejected (s : St) (r : List Nat) (path : Option Nat) (l22 off l3 : Bool) (map : Option Nat)
    (h : (reqStep s r path l22 off l3 map).2 = true) : (reqStep s r path l22 off l3 map).1 = s := by
  simp only [reqStep] at h ⊢
  cases hc : classify r with
  | pause => simp [hc] at h
  | unpause lbl =>
    simp only [hc] at h ⊢
    split at h
    · split <;> simp_all
    · simp at h
  | unpauseBad => rfl
  | stop => simp [hc] at h
  | invalid => rfl
  | start =>
    simp only [hc] at h ⊢
    unfold startReq at h ⊢
    cases ht : startTarget s path l22 off l3 map with
    | none => rfl
    | some r => simp [ht] at h

theorem step_req_run (s : St) (r : List Nat) (path : Option Nat) (l22 off l3 : Bool) (map : Option Nat)
    (hr : s.running = true) : step s (.req r path l22 off l3 map) = reqStep s r path l22 off l3 map := by
  simp [step, hr]

theorem step_req_down (s : St) (r : List Nat) (path : Option Nat) (l22 off l3 : Bool) (map : Option Nat)
    (hr : s.running = false) : step s (.req r path l22 off l3 map) = (s, true) := by
  simp [step, hr]

/-- a rejected request leaves the whole state (reported state, channels, directories, files) unchanged -/
theorem C06_rejected_is_noop (s : St) (op : Op) (h : (step s op).2 = true) : (step s op).1 = s := by
  cases op with
  | req r path l22 off l3 map =>
    cases hr : s.running with
    | true =>
      rw [step_req_run s r path l22 off l3 map hr] at h ⊢
      exact reqStep_rejected s r path l22 off l3 map h
    | false => rw [step_req_down s r path l22 off l3 map hr]
  | pub counts => simp [step] at h
  | proj ch => simp [step] at h
  | srcEnd =>
    simp only [step] at h
    split at h <;> simp at h
  | srcStart =>
    simp only [step] at h ⊢
    split
    · rfl
    · rename_i hh; simp [hh] at h
  | lens n p =>
    simp only [step] at h ⊢
    split
    · rfl
    · split
      · rfl
      · split
        · rfl
        · split
          · rfl
          · split
            · rfl
            · rename_i h1 h2 h3 h4 h5
              simp [h1, h2, h3, h4, h5] at h

theorem firstUnused_spec (dirs : List Run) (pid : Nat) : ∀ (fuel i n : Nat),
    firstUnusedFrom dirs pid i fuel = some n → (⟨pid, n⟩ : Run) ∉ dirs ∧ i ≤ n ∧ n < i + fuel := by
  intro fuel
  induction fuel with
  | zero => intro i n h; simp [firstUnusedFrom] at h
  | succ f ih =>
    intro i n h
    simp only [firstUnusedFrom] at h
    split at h
    · obtain ⟨a, b, c⟩ := ih _ _ h
      exact ⟨a, by omega, by omega⟩
    · rename_i hc
      cases h
      refine ⟨?_, Nat.le_refl _, by omega⟩
      intro hm
      exact hc (List.contains_iff_mem.mpr hm)

theorem startTarget_some (s : St) (path : Option Nat) (l22 off l3 : Bool) (map : Option Nat) (r : Run)
    (h : startTarget s path l22 off l3 map = some r) :
    (l22 || off || l3) = true ∧ (∀ c ∈ s.chans, c.hasWriter = false) ∧
      pathOr path s.ws.base = some r.pid ∧
      makeDirectory s.dirs r.pid = some r.num ∧ mapOk s map = true ∧ s.blocked.contains r.pid = false := by
  unfold startTarget at h
  by_cases h1 : (!(l22 || off || l3)) = true
  · rw [if_pos h1] at h; cases h
  · rw [if_neg h1] at h
    by_cases h2 : (s.chans.any (·.hasWriter)) = true
    · rw [if_pos h2] at h; cases h
    · rw [if_neg h2] at h
      by_cases h3 : (off && !s.chans.any (·.proj)) = true
      · rw [if_pos h3] at h; cases h
      · rw [if_neg h3] at h
        by_cases h4 : (!mapOk s map) = true
        · rw [if_pos h4] at h; cases h
        · rw [if_neg h4] at h
          cases hp : pathOr path s.ws.base with
          | none => simp [hp] at h
          | some p =>
            simp only [hp] at h
            by_cases h5 : s.blocked.contains p = true
            · rw [if_pos h5] at h; cases h
            · rw [if_neg h5] at h
              cases hm : makeDirectory s.dirs p with
              | none => simp [hm] at h
              | some i =>
              simp only [hm, Option.some.injEq] at h
              subst h
              refine ⟨by cases l22 <;> cases off <;> cases l3 <;> simp_all, ?_, rfl, hm, by simpa using h4, by simpa using h5⟩
              intro c hc
              simp only [List.any_eq_true, not_exists, not_and, Bool.not_eq_true] at h2
              exact h2 c hc

/-- what an accepted START does -/
theorem startReq_ok (s : St) (path : Option Nat) (l22 off l3 : Bool) (map : Option Nat) (s' : St)
    (h : startReq s path l22 off l3 map = (s', false)) :
    ∃ r : Run, startTarget s path l22 off l3 map = some r ∧
      s' = { s with chans := s.chans.map (·.start r l22 off l3), dirs := r :: s.dirs, startLens := s.lens,
                    ws := { active := true, paused := false, base := some r.pid, pat := some r, l22, off, l3 } } := by
  unfold startReq at h
  cases ht : startTarget s path l22 off l3 map with
  | none => simp [ht] at h
  | some r =>
    simp only [ht] at h
    exact ⟨r, rfl, (Prod.mk.inj h).1.symm⟩

/-- the three outcomes of a record-length request -/
theorem lens_step_cases (s : St) (n p : Int) :
    step s (.lens n p) = (s, true) ∨
    (step s (.lens n p) = (s, false) ∧ (n, p) = s.lens) ∨
    (step s (.lens n p) =
        ({ s with lens := (n, p), chans := s.chans.map fun c => { c with proj := false } }, false) ∧
      (n, p) ≠ s.lens ∧ s.ws.active = false) := by
  simp only [step]
  by_cases h1 : (!s.running) = true
  · left; rw [if_pos h1]
  · rw [if_neg h1]
    by_cases h2 : n ≤ 0 ∨ p ≤ 0
    · left; rw [if_pos h2]
    · rw [if_neg h2]
      by_cases h3 : (n, p) = s.lens
      · right; left; rw [if_pos h3]; exact ⟨rfl, h3⟩
      · rw [if_neg h3]
        by_cases h4 : s.ws.active = true
        · left; rw [if_pos h4]
        · rw [if_neg h4]
          by_cases h5 : p < 3 ∨ n < p + 1
          · left; rw [if_pos h5]
          · right; right; rw [if_neg h5]; exact ⟨rfl, h3, by simpa using h4⟩

theorem good_reqStep (s : St) (r : List Nat) (path : Option Nat) (l22 off l3 : Bool) (map : Option Nat)
    (hg : Good s) (hr : s.running = true) : Good (reqStep s r path l22 off l3 map).1 := by
  obtain ⟨hp, hc⟩ := hg
  simp only [reqStep]
  cases hk : classify r with
  | pause =>
    refine ⟨hp, ?_⟩
    intro c' h'
    simp only [List.mem_map] at h'
    obtain ⟨c, hcm, rfl⟩ := h'
    obtain ⟨a, b, d, _⟩ := hc c hcm
    exact ⟨a, b, d, fun _ => rfl⟩
  | unpause lbl =>
    simp only
    split
    · exact ⟨hp, hc⟩
    · refine ⟨hp, ?_⟩
      intro c' h'
      simp only [List.mem_map] at h'
      obtain ⟨c, hcm, rfl⟩ := h'
      obtain ⟨a, b, d, _⟩ := hc c hcm
      exact ⟨a, b, d, fun _ => rfl⟩
  | unpauseBad => exact ⟨hp, hc⟩
  | invalid => exact ⟨hp, hc⟩
  | stop =>
    refine ⟨by simp [WS.stop], ?_⟩
    intro c' h'
    simp only [List.mem_map] at h'
    obtain ⟨c, _, rfl⟩ := h'
    simp [GoodChan, Chan.removeAll, WS.stop, Chan.hasWriter]
  | start =>
    simp only
    cases hs : startReq s path l22 off l3 map with
    | mk s' e =>
      cases e with
      | true =>
        have := reqStep_rejected s r path l22 off l3 map (by simp [reqStep, hk, hs])
        simp only [reqStep, hk, hs] at this
        rw [this]; exact ⟨hp, hc⟩
      | false =>
        obtain ⟨run, ht, rfl⟩ := startReq_ok s path l22 off l3 map s' hs
        obtain ⟨_, hnw, _, _, _, _⟩ := startTarget_some s path l22 off l3 map run ht
        refine ⟨by simp [hr], ?_⟩
        intro c' h'
        simp only [List.mem_map] at h'
        obtain ⟨c, hcm, rfl⟩ := h'
        exact goodChan_start { s.ws with base := some run.pid } c (hnw c hcm) run l22 off l3

theorem good_step (s : St) (op : Op) (hg : Good s) : Good (step s op).1 := by
  cases op with
  | req r path l22 off l3 map =>
    cases hr : s.running with
    | true => rw [step_req_run s r path l22 off l3 map hr]; exact good_reqStep s r path l22 off l3 map hg hr
    | false => rw [step_req_down s r path l22 off l3 map hr]; exact hg
  | pub counts =>
    obtain ⟨hp, hc⟩ := hg
    refine ⟨hp, ?_⟩
    intro c' h'
    obtain ⟨c, hcm, m, rfl⟩ := pubAll_chans s.chans 0 counts s.files c' h'
    exact hc c hcm
  | proj ch =>
    obtain ⟨hp, hc⟩ := hg
    refine ⟨hp, ?_⟩
    intro c' h'
    obtain ⟨c, hcm, p, rfl⟩ := setProj_chans s.chans ch c' h'
    exact hc c hcm
  | srcEnd =>
    obtain ⟨hp, hc⟩ := hg
    simp only [step]
    split
    · refine ⟨by simp [WS.stop], ?_⟩
      intro c' h'
      simp only [List.mem_map] at h'
      obtain ⟨c, _, rfl⟩ := h'
      simp [GoodChan, Chan.removeAll, WS.stop, Chan.hasWriter]
    · rename_i hh
      refine ⟨⟨hp.1, fun _ => ?_⟩, hc⟩
      cases hr : s.running with
      | false => exact hp.2 hr
      | true => cases ha : s.ws.active with
        | false => rfl
        | true => simp [hr, ha] at hh
  | srcStart =>
    obtain ⟨hp, hc⟩ := hg
    simp only [step]
    split
    · exact ⟨hp, hc⟩
    · rename_i hh
      have hr : s.running = false := by simpa using hh
      have ha := hp.2 hr
      refine ⟨⟨hp.1, by simp⟩, ?_⟩
      intro c' h'
      simp only [List.mem_map] at h'
      obtain ⟨c, _, rfl⟩ := h'
      simp [GoodChan, Chan.new, ha, Chan.hasWriter]
  | lens n p =>
    obtain ⟨hp, hc⟩ := hg
    rcases lens_step_cases s n p with h | ⟨h, _⟩ | ⟨h, _, _⟩
    · rw [h]; exact ⟨hp, hc⟩
    · rw [h]; exact ⟨hp, hc⟩
    · rw [h]
      refine ⟨hp, ?_⟩
      intro c' h'
      simp only [List.mem_map] at h'
      obtain ⟨c, hcm, rfl⟩ := h'
      exact hc c hcm

theorem good_runOps (ops : List Op) : ∀ s, Good s → Good (runOps s ops) := by
  induction ops with
  | nil => intro s h; exact h
  | cons o os ih => intro s h; exact ih _ (good_step s o h)

/-! ### Readable form of the invariant -/

/-- **Agree**: on every channel and for every file type, records published now would be stored
(the channel is not paused and holds a writer into run directory `r`) exactly when the reported
state says active, not paused, type enabled, current run directory `r`, and the channel is eligible
(OFF: had projectors at START). -/
def Agree (s : St) : Prop :=
  ∀ c ∈ s.chans, ∀ (t : FT) (r : Run),
    (c.paused = false ∧ c.writer t = some r) ↔
      (s.ws.active = true ∧ s.ws.paused = false ∧ s.ws.enabled t = true ∧ s.ws.pat = some r ∧
        (t = .off → c.elig = true))

theorem agree_of_good (s : St) (hg : Good s) : Agree s := by
  intro c hc t r
  obtain ⟨hp, hgc⟩ := hg
  have h := contrib_eq_exp1 s.ws c (hgc c hc) 0 1 ⟨r, 0, t⟩
  unfold contrib exp1 at h
  simp only [and_true, decide_true, Bool.and_true] at h
  constructor
  · intro hl
    rw [if_pos hl] at h
    have : (s.ws.active && !s.ws.paused && decide (s.ws.pat = some r) && s.ws.enabled t &&
        (decide (t ≠ FT.off) || c.elig)) = true := by
      by_cases hh : (s.ws.active && !s.ws.paused && decide (s.ws.pat = some r) && s.ws.enabled t &&
        (decide (t ≠ FT.off) || c.elig)) = true
      · exact hh
      · rw [if_neg hh] at h; cases h
    simp only [Bool.and_eq_true, decide_eq_true_eq, Bool.or_eq_true, Bool.not_eq_true'] at this
    obtain ⟨⟨⟨⟨a, b⟩, d⟩, e⟩, f⟩ := this
    refine ⟨a, b, e, d, ?_⟩
    intro ht
    cases f with
    | inl f => exact absurd ht f
    | inr f => exact f
  · intro ⟨a, b, e, d, f⟩
    have : (s.ws.active && !s.ws.paused && decide (s.ws.pat = some r) && s.ws.enabled t &&
        (decide (t ≠ FT.off) || c.elig)) = true := by
      simp only [Bool.and_eq_true, decide_eq_true_eq, Bool.or_eq_true, Bool.not_eq_true']
      refine ⟨⟨⟨⟨a, b⟩, d⟩, e⟩, ?_⟩
      by_cases ht : t = .off
      · exact Or.inr (f ht)
      · exact Or.inl ht
    rw [if_pos this] at h
    by_cases hh : c.paused = false ∧ c.writer t = some r
    · exact hh
    · rw [if_neg hh] at h; cases h

/-- **C06_agree_invariant**: `Agree` holds after every history, from every configuration. -/
theorem C06_agree_invariant (proj : List Bool) (pre : List Run) (nums : List Int) (blocked : List Nat) (lens : Int × Int) (ops : List Op) :
    Agree (runOps (St.init proj pre nums blocked lens) ops) :=
  agree_of_good _ (good_runOps ops _ (good_init proj pre nums blocked lens))

/-- **C06_stored_iff_reported**: after any history, a publication of `counts` records adds to every
file exactly the records the REPORTED state demands (`expAll`: per eligible channel, enabled type,
current run directory, iff active and not paused) — nothing more, nothing less, nowhere else. -/
theorem C06_stored_iff_reported (proj : List Bool) (pre : List Run) (nums : List Int) (blocked : List Nat) (lens : Int × Int) (ops : List Op) (counts : List Nat)
    (k : FKey) :
    let s := runOps (St.init proj pre nums blocked lens) ops
    stored (step s (.pub counts)).1.files k =
      stored s.files k + expAll s.ws 0 (s.chans.map (·.elig)) counts k := by
  intro s
  have hg : Good s := good_runOps ops _ (good_init proj pre nums blocked lens)
  show stored (pubAll 0 s.chans counts s.files).2 k = _
  rw [stored_pubAll, contribAll_eq_expAll s.ws s.chans 0 counts k hg.2]

/-! ### The model satisfies the oracle on every history -/

theorem sameFiles_of_eq (a b : Files) (h : ∀ k, stored a k = stored b k) : sameFiles a b = true := by
  unfold sameFiles
  rw [List.all_eq_true]
  intro k _
  simp [h k]

theorem firstBad_none (before after : Files) (want : FKey → Nat)
    (h : ∀ k, stored after k = stored before k + want k) :
    ∀ keys, firstBad before after want keys = none := by
  intro keys
  induction keys with
  | nil => rfl
  | cons k ks ih =>
    simp only [firstBad]
    rw [if_neg (by rw [h k]; omega), if_neg (by rw [h k]; omega)]
    exact ih

theorem openFiles_removeAll (fs : Files) (cs : List Chan) : ∀ i,
    openFilesFrom fs i (cs.map (·.removeAll)) = 0 := by
  induction cs with
  | nil => intro i; rfl
  | cons c cs ih =>
    intro i
    simp only [List.map_cons, openFilesFrom, ih]
    simp [Chan.openFiles, Chan.removeAll, Chan.writer, FT.all]

/-- the oracle's bookkeeping matches the model state -/
def Sim (o : OSt) (s : St) : Prop :=
  o.prev = obs s ∧ o.elig = s.chans.map (·.elig) ∧ o.proj = s.chans.map (·.proj) ∧ o.dirs = s.dirs ∧
    o.lens = s.lens

theorem step_req_files (s : St) (r : List Nat) (path : Option Nat) (l22 off l3 : Bool) (map : Option Nat) :
    (step s (.req r path l22 off l3 map)).1.files = s.files := by
  cases hr : s.running with
  | false => rw [step_req_down s r path l22 off l3 map hr]
  | true =>
  rw [step_req_run s r path l22 off l3 map hr]
  simp only [reqStep]
  cases hk : classify r with
  | pause => rfl
  | unpause lbl => simp only; split <;> rfl
  | unpauseBad => rfl
  | invalid => rfl
  | stop => rfl
  | start =>
    simp only
    cases hs : startReq s path l22 off l3 map with
    | mk s' e =>
      cases e with
      | true =>
        have := reqStep_rejected s r path l22 off l3 map (by simp [reqStep, hk, hs])
        simp only [reqStep, hk, hs] at this
        rw [this]
      | false =>
        obtain ⟨run, _, rfl⟩ := startReq_ok s path l22 off l3 map s' hs
        rfl

theorem map_start_elig (cs : List Chan) (r : Run) (l22 off l3 : Bool) :
    (cs.map (·.start r l22 off l3)).map (·.elig) = cs.map (·.proj) ∧
    (cs.map (·.start r l22 off l3)).map (·.proj) = cs.map (·.proj) := by
  induction cs with
  | nil => simp
  | cons c cs ih =>
    simp only [List.map_cons, ih.1, ih.2]
    cases l22 <;> cases off <;> cases l3 <;> cases hp : c.proj <;>
      simp [Chan.start, Chan.setLJH22, Chan.setLJH3, Chan.setOFF, hp]

theorem chk_step_model (o : OSt) (s : St) (op : Op) (hg : Good s) (hs : Sim o s) :
    ∃ o', chkStep o op (step s op).2 (obs (step s op).1) = .ok o' ∧ Sim o' (step s op).1 := by
  obtain ⟨hprev, helig, hproj, hdirs, hlens⟩ := hs
  cases op with
  | req r path l22 off l3 map =>
    have hfiles := step_req_files s r path l22 off l3
    cases herr : (step s (.req r path l22 off l3 map)).2 with
    | true =>
      have hno := C06_rejected_is_noop s _ herr
      rw [hno]
      refine ⟨{ o with prev := obs s }, ?_, ⟨rfl, helig, hproj, hdirs, hlens⟩⟩
      have hcond : (obs s).ws = o.prev.ws ∧ sameFiles o.prev.files (obs s).files = true :=
        ⟨by rw [hprev], sameFiles_of_eq _ _ (by rw [hprev]; intro k; rfl)⟩
      simp only [chkStep, if_true, if_pos hcond]
    | false =>
      have hr : s.running = true := by
        cases hr : s.running with
        | true => rfl
        | false => rw [step_req_down s r path l22 off l3 map hr] at herr; cases herr
      have hsame : sameFiles o.prev.files (obs (step s (.req r path l22 off l3 map)).1).files = true :=
        sameFiles_of_eq _ _ (by rw [hprev]; intro k; show stored s.files k = stored (step s _).1.files k; rw [hfiles])
      simp only [chkStep, Bool.false_eq_true, if_false, hsame, Bool.not_true]
      cases hk : classify r with
      | start =>
        simp only
        have hst : step s (.req r path l22 off l3 map) = startReq s path l22 off l3 map := by simp [step, hr, reqStep, hk]
        rw [hst] at herr ⊢
        cases hs' : startReq s path l22 off l3 map with
        | mk s' e =>
          rw [hs'] at herr
          simp only at herr
          subst herr
          obtain ⟨run, ht, rfl⟩ := startReq_ok s path l22 off l3 map s' hs'
          obtain ⟨_, _, hpath, hmk, _, _⟩ := startTarget_some s path l22 off l3 map run ht
          have hfresh := (firstUnused_spec s.dirs run.pid 10000 0 run.num hmk).1
          simp only [obs]
          have hpb : pathOr path o.prev.ws.base = some run.pid := by
            rw [hprev]; exact hpath
          rw [if_neg]
          · refine ⟨_, rfl, ⟨rfl, ?_, ?_, by simp [hdirs], hlens⟩⟩
            · simp only; rw [hproj, (map_start_elig s.chans run l22 off l3).1]
            · simp only; rw [hproj, (map_start_elig s.chans run l22 off l3).2]
          · rw [hpb, hdirs]
            intro hh
            cases hh with
            | inl hh => exact hfresh (List.contains_iff_mem.mp hh)
            | inr hh => exact hh rfl
      | stop =>
        simp only
        have hst : (step s (.req r path l22 off l3 map)).1 =
            { s with chans := s.chans.map (·.removeAll), ws := s.ws.stop } := by simp [step, hr, reqStep, hk]
        rw [hst]
        have hf : (obs { s with chans := s.chans.map (·.removeAll), ws := s.ws.stop }).fds = 0 := by
          simp [obs, WS.stop, openFiles_removeAll]
        rw [if_pos hf]
        refine ⟨_, rfl, ⟨rfl, ?_, ?_, hdirs, hlens⟩⟩
        · simp only [List.map_map]; rw [helig]; apply List.map_congr_left; intro c _; rfl
        · simp only [List.map_map]; rw [hproj]; apply List.map_congr_left; intro c _; rfl
      | pause =>
        simp only
        have hst : (step s (.req r path l22 off l3 map)).1 =
            { s with chans := s.chans.map (·.setPause true), ws := { s.ws with paused := true } } := by
          simp [step, hr, reqStep, hk]
        rw [hst]
        refine ⟨_, rfl, ⟨rfl, ?_, ?_, hdirs, hlens⟩⟩
        · simp only [List.map_map]; rw [helig]; apply List.map_congr_left; intro c _; rfl
        · simp only [List.map_map]; rw [hproj]; apply List.map_congr_left; intro c _; rfl
      | unpause lbl =>
        simp only
        have hst : (step s (.req r path l22 off l3 map)).1 =
            { s with chans := s.chans.map (·.setPause false), ws := { s.ws with paused := false } } := by
          simp only [step, hr, if_true, reqStep, hk] at herr ⊢
          split at herr
          · simp at herr
          · rename_i hh; simp [hh]
        rw [hst]
        refine ⟨_, rfl, ⟨rfl, ?_, ?_, hdirs, hlens⟩⟩
        · simp only [List.map_map]; rw [helig]; apply List.map_congr_left; intro c _; rfl
        · simp only [List.map_map]; rw [hproj]; apply List.map_congr_left; intro c _; rfl
      | unpauseBad => simp [step, hr, reqStep, hk] at herr
      | invalid => simp [step, hr, reqStep, hk] at herr
  | pub counts =>
    have hst : ∀ k, stored (obs (step s (.pub counts)).1).files k =
        stored o.prev.files k + expAll o.prev.ws 0 o.elig counts k := by
      intro k
      rw [hprev, helig]
      show stored (pubAll 0 s.chans counts s.files).2 k = _
      rw [stored_pubAll, contribAll_eq_expAll s.ws s.chans 0 counts k hg.2]
      rfl
    simp only [chkStep]
    rw [firstBad_none _ _ _ hst]
    refine ⟨_, rfl, ⟨rfl, ?_, ?_, hdirs, hlens⟩⟩
    · simp only [step]; rw [helig, (pubAll_elig s.chans 0 counts s.files).1]
    · simp only [step]; rw [hproj, (pubAll_elig s.chans 0 counts s.files).2]
  | proj ch =>
    have hsame : sameFiles o.prev.files (obs (step s (.proj ch)).1).files = true :=
      sameFiles_of_eq _ _ (by rw [hprev]; intro k; rfl)
    simp only [chkStep, hsame, if_true]
    refine ⟨_, rfl, ⟨rfl, ?_, ?_, hdirs, hlens⟩⟩
    · simp only [step]; rw [helig, (setProj_maps s.chans ch).1]
    · simp only [step]; rw [hproj, (setProj_maps s.chans ch).2]
  | srcEnd =>
    have hsame : sameFiles o.prev.files (obs (step s .srcEnd).1).files = true :=
      sameFiles_of_eq _ _ (by
        rw [hprev]; intro k
        show stored s.files k = stored (step s .srcEnd).1.files k
        simp only [step]; split <;> rfl)
    simp only [chkStep, hsame, if_true]
    refine ⟨_, rfl, ⟨rfl, ?_, ?_, ?_, ?_⟩⟩
    · simp only [step]; split
      · simp only [List.map_map]; rw [helig]; apply List.map_congr_left; intro c _; rfl
      · exact helig
    · simp only [step]; split
      · simp only [List.map_map]; rw [hproj]; apply List.map_congr_left; intro c _; rfl
      · exact hproj
    · simp only [step]; split <;> exact hdirs
    · simp only [step]; split <;> exact hlens
  | srcStart =>
    cases hr : s.running with
    | true =>
      have hst : step s .srcStart = (s, true) := by simp [step, hr]
      rw [hst]
      have hsame : sameFiles o.prev.files (obs s).files = true :=
        sameFiles_of_eq _ _ (by rw [hprev]; intro k; rfl)
      simp only [chkStep, hsame, Bool.not_true, Bool.false_eq_true, if_false, if_true]
      exact ⟨_, rfl, ⟨rfl, helig, hproj, hdirs, hlens⟩⟩
    | false =>
      have hst : step s .srcStart =
          ({ s with running := true, chans := s.chans.map fun _ => Chan.new false }, false) := by simp [step, hr]
      rw [hst]
      have hsame : sameFiles o.prev.files
          (obs { s with running := true, chans := s.chans.map fun _ => Chan.new false }).files = true :=
        sameFiles_of_eq _ _ (by rw [hprev]; intro k; rfl)
      simp only [chkStep, hsame, Bool.not_true, Bool.false_eq_true, if_false]
      refine ⟨_, rfl, ⟨rfl, ?_, ?_, hdirs, hlens⟩⟩
      · simp only [List.map_map]; rw [helig, List.map_map]; apply List.map_congr_left; intro c _; rfl
      · simp only [List.map_map]; rw [hproj, List.map_map]; apply List.map_congr_left; intro c _; rfl
  | lens n p =>
    rcases lens_step_cases s n p with h | ⟨h, he⟩ | ⟨h, he, _⟩
    · rw [h]
      have hsame : sameFiles o.prev.files (obs s).files = true :=
        sameFiles_of_eq _ _ (by rw [hprev]; intro k; rfl)
      have hws : (obs s).ws = o.prev.ws := by rw [hprev]
      simp only [chkStep, hsame, Bool.not_true, Bool.false_eq_true, if_false, if_true, if_pos hws]
      exact ⟨_, rfl, ⟨rfl, helig, hproj, hdirs, hlens⟩⟩
    · rw [h]
      have hsame : sameFiles o.prev.files (obs s).files = true :=
        sameFiles_of_eq _ _ (by rw [hprev]; intro k; rfl)
      have he' : (n, p) = o.lens := by rw [hlens]; exact he
      simp only [chkStep, hsame, Bool.not_true, Bool.false_eq_true, if_false, if_pos he']
      exact ⟨_, rfl, ⟨rfl, helig, hproj, hdirs, hlens⟩⟩
    · rw [h]
      have hsame : sameFiles o.prev.files
          (obs { s with lens := (n, p), chans := s.chans.map fun c => { c with proj := false } }).files = true :=
        sameFiles_of_eq _ _ (by rw [hprev]; intro k; rfl)
      have he' : ¬ (n, p) = o.lens := by rw [hlens]; exact he
      simp only [chkStep, hsame, Bool.not_true, Bool.false_eq_true, if_false, if_neg he']
      refine ⟨_, rfl, ⟨rfl, ?_, ?_, hdirs, rfl⟩⟩
      · simp only [List.map_map]; rw [helig]; apply List.map_congr_left; intro c _; rfl
      · simp only [List.map_map]; rw [hproj, List.map_map]; apply List.map_congr_left; intro c _; rfl

theorem chk_run_model (ops : List Op) : ∀ (o : OSt) (s : St), Good s → Sim o s →
    ∃ o', chkRun o ops (runModel s ops) = .ok o' := by
  induction ops with
  | nil => intro o s _ _; exact ⟨o, rfl⟩
  | cons op ops ih =>
    intro o s hg hs
    obtain ⟨o1, h1, hs1⟩ := chk_step_model o s op hg hs
    simp only [runModel, chkRun, h1]
    exact ih o1 _ (good_step s op hg) hs1

/-- **C06_agree_all_histories**: for every configuration (channels with/without projectors, existing
run directories) and EVERY sequence of requests (any strings, any type subsets, any paths — including
PAUSE before START, START while active, UNPAUSE with labels, malformed requests), publications and
projector loads, the model's observable behaviour passes the property oracle at every step:
records are stored exactly as the reported state says, rejected requests change nothing, every
accepted START reports a fresh run directory under the requested path, STOP leaves no file open. -/
theorem C06_agree_all_histories (proj : List Bool) (pre : List Run) (nums : List Int) (blocked : List Nat) (lens : Int × Int) (ops : List Op) :
    ∃ o', chkRun (OSt.init proj pre lens) ops (runModel (St.init proj pre nums blocked lens) ops) = .ok o' := by
  apply chk_run_model ops _ _ (good_init proj pre nums blocked lens)
  refine ⟨rfl, ?_, ?_, rfl, rfl⟩
  · show proj.map (fun _ => false) = (proj.map Chan.new).map (·.elig)
    induction proj with
    | nil => rfl
    | cons p ps ih => simp [Chan.new]
  · show proj = (proj.map Chan.new).map (·.proj)
    induction proj with
    | nil => rfl
    | cons p ps ih => simpa [Chan.new] using ih

/-- **C06_start_fresh_dir**: an accepted START (from ANY state) creates a run directory that did not
exist, under the requested path (or the remembered base path), reports it as the file pattern, and
reports active / not paused / exactly the requested file types. -/
theorem C06_start_fresh_dir (s s' : St) (r : List Nat) (path : Option Nat) (l22 off l3 : Bool) (map : Option Nat)
    (hk : classify r = .start) (h : step s (.req r path l22 off l3 map) = (s', false)) :
    ∃ run : Run, s'.ws.pat = some run ∧ run ∉ s.dirs ∧ run ∈ s'.dirs ∧
      some run.pid = pathOr path s.ws.base ∧
      s'.ws.active = true ∧ s'.ws.paused = false ∧
      s'.ws.l22 = l22 ∧ s'.ws.off = off ∧ s'.ws.l3 = l3 ∧ s'.files = s.files := by
  have hr : s.running = true := by
    cases hr : s.running with
    | true => rfl
    | false => rw [step_req_down s r path l22 off l3 map hr] at h; cases h
  have hst : step s (.req r path l22 off l3 map) = startReq s path l22 off l3 map := by
    simp [step, hr, reqStep, hk]
  rw [hst] at h
  obtain ⟨run, ht, rfl⟩ := startReq_ok s path l22 off l3 map s' h
  obtain ⟨_, _, hpath, hmk, _, _⟩ := startTarget_some s path l22 off l3 map run ht
  refine ⟨run, rfl, (firstUnused_spec s.dirs run.pid 10000 0 run.num hmk).1, by simp, hpath.symm,
    rfl, rfl, rfl, rfl, rfl, rfl⟩

/-- **C06_stop_closes_all**: STOP (from ANY state of a running source) is accepted, leaves no writer on any channel, no
open file, reports inactive with an empty pattern, and does not touch the stored records. -/
theorem C06_stop_closes_all (s : St) (r : List Nat) (path : Option Nat) (l22 off l3 : Bool) (map : Option Nat)
    (hk : classify r = .stop) (hr : s.running = true) :
    ∀ s' e, step s (.req r path l22 off l3 map) = (s', e) →
    e = false ∧ (∀ c ∈ s'.chans, c.hasWriter = false) ∧
      s'.ws.active = false ∧ s'.ws.pat = none ∧ (obs s').fds = 0 ∧ s'.files = s.files := by
  intro s' e h
  have hst : step s (.req r path l22 off l3 map) =
      ({ s with chans := s.chans.map (·.removeAll), ws := s.ws.stop }, false) := by simp [step, hr, reqStep, hk]
  rw [hst] at h
  obtain ⟨rfl, rfl⟩ := Prod.mk.inj h
  refine ⟨rfl, ?_, rfl, rfl, by simp [obs, WS.stop, openFiles_removeAll], rfl⟩
  intro c hc
  simp only [List.mem_map] at hc
  obtain ⟨c0, _, rfl⟩ := hc
  simp [Chan.removeAll, Chan.hasWriter]

/-- **C06_bad_map_refused**: a START that arrives with a pixel map of the wrong length, or with a map
that has no pixel for some channel's number (whichever channel it is), is refused from ANY state and
changes nothing at all: no directory, no writer, no reported change (every check precedes the first change). -/
theorem C06_bad_map_refused (s : St) (r : List Nat) (path : Option Nat) (l22 off l3 : Bool) (map : Option Nat)
    (hk : classify r = .start) (hm : mapOk s map = false) :
    step s (.req r path l22 off l3 map) = (s, true) := by
  have ht : startTarget s path l22 off l3 map = none := by
    unfold startTarget
    split
    · rfl
    · split
      · rfl
      · split
        · rfl
        · simp [hm]
  cases hr : s.running with
  | false => exact step_req_down s r path l22 off l3 map hr
  | true => simp [step, hr, reqStep, hk, startReq, ht]

/-! ### Record lengths -/

/-- while writing is active the configured record length is the one the files were started with -/
def LensOk (s : St) : Prop := s.ws.active = true → s.startLens = s.lens

theorem lensOk_step (s : St) (op : Op) (h : LensOk s) : LensOk (step s op).1 := by
  cases op with
  | req r path l22 off l3 map =>
    cases hr : s.running with
    | false => rw [step_req_down s r path l22 off l3 map hr]; exact h
    | true =>
      rw [step_req_run s r path l22 off l3 map hr]
      simp only [reqStep]
      cases hk : classify r with
      | pause => exact h
      | unpause lbl => simp only; split <;> exact h
      | unpauseBad => exact h
      | invalid => exact h
      | stop => intro ha; simp [WS.stop] at ha
      | start =>
        simp only
        cases hs : startReq s path l22 off l3 map with
        | mk s' e =>
          cases e with
          | true =>
            have := reqStep_rejected s r path l22 off l3 map (by simp [reqStep, hk, hs])
            simp only [reqStep, hk, hs] at this
            rw [this]; exact h
          | false =>
            obtain ⟨run, _, rfl⟩ := startReq_ok s path l22 off l3 map s' hs
            intro _; rfl
  | pub counts => exact h
  | proj ch => exact h
  | srcEnd =>
    simp only [step]
    split
    · intro ha; simp [WS.stop] at ha
    · exact h
  | srcStart =>
    simp only [step]
    split <;> exact h
  | lens n p =>
    rcases lens_step_cases s n p with h1 | ⟨h1, _⟩ | ⟨h1, _, ha⟩
    · rw [h1]; exact h
    · rw [h1]; exact h
    · rw [h1]; intro ha'; rw [ha] at ha'; cases ha'

theorem lensOk_runOps (ops : List Op) : ∀ s, LensOk s → LensOk (runOps s ops) := by
  induction ops with
  | nil => intro s h; exact h
  | cons o os ih => intro s h; exact ih _ (lensOk_step s o h)

/-- **C06_lengths_fixed_while_active**: after every history, while writing is active (paused or not) the
configured record length equals the length the current files were started with: a length request can
only succeed while writing is inactive. -/
theorem C06_lengths_fixed_while_active (proj : List Bool) (pre : List Run) (nums : List Int) (blocked : List Nat)
    (lens : Int × Int) (ops : List Op) :
    let s := runOps (St.init proj pre nums blocked lens) ops
    s.ws.active = true → s.startLens = s.lens :=
  lensOk_runOps ops _ (fun _ => rfl)

/-- a length request that differs from the configured one is refused whenever writing is active -/
theorem C06_length_change_refused_while_active (s : St) (n p : Int) (ha : s.ws.active = true)
    (hd : (n, p) ≠ s.lens) : step s (.lens n p) = (s, true) := by
  rcases lens_step_cases s n p with h | ⟨_, he⟩ | ⟨_, _, h⟩
  · exact h
  · exact absurd he hd
  · rw [ha] at h; cases h

/-- **C06_uncreatable_path_refused**: a START whose (explicit or remembered) base path admits no new
directory is refused from ANY state and changes NOTHING - in particular not the reported base path, so a
later START without a path still goes where the last accepted START went. -/
theorem C06_uncreatable_path_refused (s : St) (r : List Nat) (path : Option Nat) (l22 off l3 : Bool) (map : Option Nat)
    (hk : classify r = .start) (p : Nat) (hp : pathOr path s.ws.base = some p) (hb : s.blocked.contains p = true) :
    step s (.req r path l22 off l3 map) = (s, true) := by
  have ht : startTarget s path l22 off l3 map = none := by
    unfold startTarget
    split
    · rfl
    · split
      · rfl
      · split
        · rfl
        · split
          · rfl
          · rw [hp]
            show (if s.blocked.contains p = true then none else _) = none
            rw [if_pos hb]
  cases hr : s.running with
  | false => exact step_req_down s r path l22 off l3 map hr
  | true => simp [step, hr, reqStep, hk, startReq, ht]

/-- **C06_source_end_stops_writing**: when the source ends by itself - writing active or not, PAUSED or
not - no channel keeps a writer, no file stays open, the reported state is inactive with an empty
pattern (and not paused if writing was active), and the stored records are untouched. -/
theorem C06_source_end_stops_writing (s : St) (hg : Good s) :
    let s' := (step s .srcEnd).1
    s'.running = false ∧ s'.ws.active = false ∧ (∀ c ∈ s'.chans, c.hasWriter = false) ∧
      (obs s').fds = 0 ∧ s'.files = s.files := by
  show (step s .srcEnd).1.running = false ∧ (step s .srcEnd).1.ws.active = false ∧
    (∀ c ∈ (step s .srcEnd).1.chans, c.hasWriter = false) ∧ (obs (step s .srcEnd).1).fds = 0 ∧
    (step s .srcEnd).1.files = s.files
  simp only [step]
  split
  · refine ⟨rfl, rfl, ?_, by simp [obs, WS.stop, openFiles_removeAll], rfl⟩
    intro c hc
    simp only [List.mem_map] at hc
    obtain ⟨c0, _, rfl⟩ := hc
    simp [Chan.removeAll, Chan.hasWriter]
  · rename_i hh
    have ha : s.ws.active = false := by
      cases hr : s.running with
      | false => exact hg.1.2 hr
      | true => cases ha : s.ws.active with
        | false => rfl
        | true => simp [hr, ha] at hh
    have hnw : ∀ c ∈ s.chans, c.hasWriter = false := by
      intro c hc
      obtain ⟨h1, h2, h3, _⟩ := hg.2 c hc
      simp [Chan.hasWriter, h1, h2, h3, ha]
    refine ⟨rfl, ha, hnw, ?_, rfl⟩
    have hz : ∀ (cs : List Chan) (i : Nat), (∀ c ∈ cs, c.hasWriter = false) → openFilesFrom s.files i cs = 0 := by
      intro cs
      induction cs with
      | nil => intro i _; rfl
      | cons c cs ih =>
        intro i h
        have hc := h c (by simp)
        have e1 : c.w22 = none := by cases hx : c.w22 <;> simp [Chan.hasWriter, hx] at hc ⊢
        have e2 : c.w3 = none := by cases hx : c.w3 <;> simp [Chan.hasWriter, hx] at hc ⊢
        have e3 : c.woff = none := by cases hx : c.woff <;> simp [Chan.hasWriter, hx] at hc ⊢
        simp only [openFilesFrom, ih (i + 1) (fun c' hc' => h c' (by simp [hc']))]
        simp [Chan.openFiles, Chan.writer, FT.all, e1, e2, e3]
    simp [obs, ha, hz s.chans 0 hnw]

/-! ### Non-vacuity: concrete histories (requests as byte strings) -/

def reqSTART : List Nat := sSTART
def reqSTOP : List Nat := sSTOP

/-- OFF-only START after a PAUSE that preceded it: the channel with projectors stores, the other not -/
example :
    let s := runOps (St.init [true, false] [⟨0, 0⟩] [1, 2])
      [.req sPAUSE none false false false none, .req sSTART (some 0) false true false (some 2), .pub [3, 5]]
    stored s.files ⟨⟨0, 1⟩, 0, .off⟩ = 3 ∧ stored s.files ⟨⟨0, 1⟩, 1, .off⟩ = 0 ∧
      s.ws.active = true ∧ s.ws.paused = false := by decide

/-- a paused run stores nothing; a second START while active is rejected -/
example :
    let s := runOps (St.init [false] [] [1])
      [.req sSTART (some 1) true false true none, .pub [2], .req sPAUSE none false false false none, .pub [4],
       .req sSTART (some 1) true false false none]
    stored s.files ⟨⟨1, 0⟩, 0, .ljh22⟩ = 2 ∧ stored s.files ⟨⟨1, 0⟩, 0, .ljh3⟩ = 2 ∧ s.dirs = [⟨1, 0⟩] := by
  decide

/-- channel numbers {1,2,9,3} against a 4-pixel map: the offending channel is not the first; refused,
nothing changes, and a following START without map is accepted into run 0 -/
example :
    let s0 := St.init [false, false, false, false] [] [1, 2, 9, 3]
    step s0 (.req sSTART (some 0) true false false (some 4)) = (s0, true) ∧
      (step s0 (.req sSTART (some 0) true false false none)).2 = false ∧
      mapOk (St.init [false, false, false] [] [3, 1, 2]) (some 3) = true := by decide

/-- START; PAUSE; the source ends by itself; restart; UNPAUSE; publish: inactive, nothing stored; a new
START then writes into run 1 -/
example :
    let s := runOps (St.init [false] [] [1])
      [.req sSTART (some 0) true false false none, .pub [1], .req sPAUSE none false false false none, .srcEnd,
       .req sUNPAUSE none false false false none, .srcStart, .req sUNPAUSE none false false false none, .pub [2],
       .req sSTART none true false false none, .pub [4]]
    stored s.files ⟨⟨0, 0⟩, 0, .ljh22⟩ = 1 ∧ stored s.files ⟨⟨0, 1⟩, 0, .ljh22⟩ = 4 ∧ s.ws.pat = some ⟨0, 1⟩ := by
  decide

/-- a refused START below a regular file does not move the base path: the next path-less START writes
under base 0 again -/
example :
    let s := runOps (St.init [false] [] [1] [2])
      [.req sSTART (some 0) true false false none, .req sSTOP none false false false none,
       .req sSTART (some 2) true false false none, .req sSTART none true false false none]
    s.ws.base = some 0 ∧ s.ws.pat = some ⟨0, 1⟩ ∧ s.dirs = [⟨0, 1⟩, ⟨0, 0⟩] := by decide

/-- record lengths: changed while inactive (projectors dropped), refused while active and while paused -/
example :
    let s := runOps (St.init [true] [] [1] [] (8, 3))
      [.lens 16 4, .req sSTART (some 0) true false false none, .lens 8 3, .req sPAUSE none false false false none,
       .lens 8 3, .lens 16 4, .req sUNPAUSE none false false false none, .pub [2]]
    s.lens = (16, 4) ∧ s.startLens = (16, 4) ∧ (s.chans.map (·.proj)) = [false] ∧
      stored s.files ⟨⟨0, 0⟩, 0, .ljh22⟩ = 2 := by decide

example : classify [117, 110, 112, 97, 117, 115, 101, 32, 65] = .unpause (some [65]) := by decide
example : classify (sUNPAUSE ++ [120]) = .unpauseBad := by decide
example : classify (sPAUSE ++ [68]) = .pause := by decide

end DastardV.C06
