/-
C19 — channel identity is unique and consistent everywhere it is reported.
Property theorems over the model `Model/C19.lean` (helper lemmas in `Lemmas/C19*.lean`).
All statements are for ALL configurations: any number of cards, columns, rows, any first-row number,
any (also zero, negative, too small) separations, any set of Abaco channel groups.
-/
import DastardV.Lemmas.C19Abaco
namespace DastardV.C19

/-! ### Row/column code -/

/-- The four fields round-trip exactly when each fits its 16 bits; the code fits a `uint64`. -/
theorem C19_rccode_roundtrip (row col rows cols : Nat)
    (h1 : row < 65536) (h2 : col < 65536) (h3 : rows < 65536) (h4 : cols < 65536) :
    rcRow (rcCode row col rows cols) = row ∧ rcCol (rcCode row col rows cols) = col ∧
    rcRows (rcCode row col rows cols) = rows ∧ rcCols (rcCode row col rows cols) = cols ∧
    rcCode row col rows cols < 2 ^ 64 := by
  refine ⟨?_, ?_, ?_, ?_, rcCode_lt _ _ _ _⟩
  · rw [rcRow_rcCode, Nat.mod_eq_of_lt h1]
  · rw [rcCol_rcCode, Nat.mod_eq_of_lt h2]
  · rw [rcRows_rcCode, Nat.mod_eq_of_lt h3]
  · rw [rcCols_rcCode, Nat.mod_eq_of_lt h4]

/-- Without the guards every field is only recovered modulo 2^16 … -/
theorem C19_rccode_fields_mod (row col rows cols : Nat) :
    rcRow (rcCode row col rows cols) = row % 65536 ∧ rcCol (rcCode row col rows cols) = col % 65536 ∧
    rcRows (rcCode row col rows cols) = rows % 65536 ∧ rcCols (rcCode row col rows cols) = cols % 65536 :=
  ⟨rcRow_rcCode _ _ _ _, rcCol_rcCode _ _ _ _, rcRows_rcCode _ _ _ _, rcCols_rcCode _ _ _ _⟩

/-- … so each guard is needed: 65536 in any one field is lost. -/
theorem C19_rccode_guards_needed :
    rcRow (rcCode 65536 0 1 1) ≠ 65536 ∧ rcCol (rcCode 0 65536 1 1) ≠ 65536 ∧
    rcRows (rcCode 0 0 65536 1) ≠ 65536 ∧ rcCols (rcCode 0 0 1 65536) ≠ 65536 := by
  simp only [rcRow_rcCode, rcCol_rcCode, rcRows_rcCode, rcCols_rcCode]; decide

example : rcCode 3 2 30 8 = 2251928662835203 ∧ rcRow 2251928662835203 = 3 ∧ rcCols 2251928662835203 = 8 := by decide

/-! ### Names and file names -/

/-- `"err%d"` / `"chan%d"` determine the prefix and the number. -/
theorem C19_names_injective (e1 e2 : Bool) (n1 n2 : Int) (h : chanName e1 n1 = chanName e2 n2) :
    e1 = e2 ∧ n1 = n2 := chanName_inj h

theorem tdm_names_nodup (ps : List Pixel) (h : (ps.map (·.num)).Nodup) :
    ((ps.flatMap Pixel.streams).map (·.name)).Nodup := by
  rw [List.map_flatMap]
  unfold List.Nodup at *
  rw [List.pairwise_flatMap]
  rw [List.pairwise_map] at h
  constructor
  · intro p _
    simp only [Pixel.streams, mkStream, List.map_cons, List.map_nil, List.pairwise_cons, List.mem_cons,
      List.not_mem_nil, or_false, forall_eq, false_implies, implies_true, List.Pairwise.nil, and_true]
    intro hh; exact absurd (chanName_inj hh).1 (by decide)
  · refine h.imp ?_
    intro p q hpq x hx y hy hxy
    simp only [Pixel.streams, mkStream, List.map_cons, List.map_nil, List.mem_cons, List.not_mem_nil,
      or_false] at hx hy
    rcases hx with rfl | rfl <;> rcases hy with rfl | rfl <;> exact hpq (chanName_inj hxy).2

/-- **File names.** Streams with pairwise distinct names get pairwise distinct output file names, over all
three file types and for every directory/date/run prefix. -/
theorem C19_filenames_distinct (pfx : List Char) (t : Tables) (h : (t.streams.map (·.name)).Nodup) :
    ((t.streams.map (·.name)).flatMap fun n =>
      [fileName pfx n extLJH, fileName pfx n extOFF, fileName pfx n extLJH3]).Nodup :=
  fileNames_nodup pfx _ h

/-! ### Lancero -/

/-- Device numbers are distinct whenever they enter the numbering (`LanceroSource.Configure` refuses to
activate a device twice and devices are keyed by their number). -/
def LCfg.DevnumsOK (c : LCfg) : Prop := c.sepCards > 0 → (c.devs.map (·.devnum)).Nodup

theorem lancero_ok (c : LCfg) (t : Tables) (h : lanceroPrepare c = .ok t) :
    lanceroValidate c = none ∧ t = lanceroTables c := by
  unfold lanceroPrepare at h
  cases hv : lanceroValidate c with
  | some e => rw [hv] at h; cases h
  | none => rw [hv] at h; simp only [Except.ok.injEq] at h; exact ⟨rfl, h.symm⟩

/-- **Accepted ⇒ unique.** For every accepted configuration: the streams are the error/feedback pairs of the
pixels in read-out order; every (card, column, row) of the configuration occurs exactly once; the map
(card, column, row) ↦ channel number is injective; the two partners of a pixel carry the same number; all
names are distinct; there are exactly `nchan` streams. -/
theorem C19_lancero_injective (c : LCfg) (t : Tables) (hd : c.DevnumsOK) (h : lanceroPrepare c = .ok t) :
    let px := (lanceroLoop c).pixels
    t.streams = px.flatMap Pixel.streams ∧
    px.map Pixel.ccr = ccrFrom c.devs 0 ∧ (ccrFrom c.devs 0).Nodup ∧
    (px.map (·.num)).Nodup ∧
    evens (t.streams.map (·.num)) = px.map (·.num) ∧ odds (t.streams.map (·.num)) = px.map (·.num) ∧
    (t.streams.map (·.name)).Nodup ∧
    t.streams.length = t.nchan := by
  obtain ⟨hv, rfl⟩ := lancero_ok c t h
  have hp := devLoop_pixels c c.devs 0 { cnum := c.firstRow, tcf := c.firstRow - c.sepCols } (rowsFit_of_valid c hv)
  have hn := lancero_nums_nodup c hv hd
  have hnums : (lanceroTables c).streams.map (·.num)
      = (lanceroLoop c).pixels.flatMap (fun p => [p.num, p.num]) := by
    simp only [lanceroTables, List.map_flatMap, Pixel.streams, mkStream, List.map_cons, List.map_nil]
  refine ⟨rfl, hp.2.2, ccrFrom_nodup _ _, hn, ?_, ?_, tdm_names_nodup _ hn, ?_⟩
  · rw [hnums]; exact evens_pairs _ _ _
  · rw [hnums]; exact odds_pairs _ _ _
  · have hl := congrArg List.length hp.2.1
    rw [List.length_map] at hl
    have h2 := length_lanceroGeom c.devs
    show ((lanceroLoop c).pixels.flatMap Pixel.streams).length = lanceroNchan c.devs
    rw [List.length_flatMap]
    have : List.map (fun a => (Pixel.streams a).length) (lanceroLoop c).pixels
        = List.replicate (lanceroLoop c).pixels.length 2 := by
      rw [List.eq_replicate_iff]
      refine ⟨by simp, ?_⟩
      intro x hx
      obtain ⟨p, _, rfl⟩ := List.mem_map.mp hx
      rfl
    rw [this, List.sum_replicate_nat]
    unfold lanceroLoop
    omega

/-- the positions enumerated above are exactly those of the configuration -/
theorem C19_lancero_positions (c : LCfg) (card col row : Nat) :
    (card, col, row) ∈ ccrFrom c.devs 0 ↔ ∃ d, c.devs[card]? = some d ∧ col < d.ncols ∧ row < d.nrows := by
  rw [mem_ccrFrom]; simp

/-- **Exact acceptance condition** of the validation in front of the numbering loop. -/
theorem C19_accept_iff (c : LCfg) : (∃ t, lanceroPrepare c = .ok t) ↔
    0 ≤ c.sepCards ∧ 0 ≤ c.sepCols ∧
    (c.sepCols > 0 → ∀ d ∈ c.devs, (d.nrows : Int) ≤ c.sepCols) ∧
    (c.sepCards > 0 → ∀ d ∈ c.devs, colsep c.sepCols d * (d.ncols : Int) ≤ c.sepCards) := by
  rw [← validate_none_iff]
  unfold lanceroPrepare
  cases lanceroValidate c <;> simp

/-- **Would collide ⇒ rejected.** Whatever the separations are — zero, negative, too small —: if the numbering
loop run on them would give two different (card, column, row) the same number, `PrepareChannels` rejects. -/
theorem C19_rejects_collisions (c : LCfg) (hd : c.DevnumsOK)
    (hc : ¬ ((lanceroLoop c).pixels.map (·.num)).Nodup) : ∃ e, lanceroPrepare c = .error e := by
  unfold lanceroPrepare
  cases hv : lanceroValidate c with
  | some e => exact ⟨e, rfl⟩
  | none => exact absurd (lancero_nums_nodup c hv hd) hc

/-- Negative separations are rejected outright, too small ones as soon as a card needs more room. -/
theorem C19_rejects_bad_separations (c : LCfg) (d : Dev) (hd : d ∈ c.devs)
    (h : c.sepCards < 0 ∨ c.sepCols < 0 ∨ (0 < c.sepCols ∧ c.sepCols < d.nrows) ∨
      (0 < c.sepCards ∧ c.sepCards < colsep c.sepCols d * (d.ncols : Int))) :
    ∃ e, lanceroPrepare c = .error e := by
  unfold lanceroPrepare
  cases hv : lanceroValidate c with
  | some e => exact ⟨e, rfl⟩
  | none =>
    exfalso
    obtain ⟨h1, h2, h3, h4⟩ := (validate_none_iff c).mp hv
    rcases h with h | h | h | h
    · omega
    · omega
    · have := h3 h.1 d hd; omega
    · have := h4 h.1 d hd; omega

/-- the hypothesis on device numbers is needed: the same number twice collides (and is accepted) -/
example : ∃ t, lanceroPrepare ⟨1, 100, 0, [⟨0, 1, 2⟩, ⟨0, 1, 2⟩]⟩ = .ok t ∧
    ¬ (evens (t.streams.map (·.num))).Nodup := ⟨_, rfl, by decide⟩

/-- non-vacuity: a two-card, 2x3 configuration with both separations is accepted and numbered as documented -/
example : (lanceroPrepare ⟨1, 100, 10, [⟨1, 2, 3⟩, ⟨0, 2, 3⟩]⟩).toOption.map (fun t => t.streams.map (·.num))
    = some [101, 101, 102, 102, 103, 103, 111, 111, 112, 112, 113, 113,
            1, 1, 2, 2, 3, 3, 11, 11, 12, 12, 13, 13] := by decide

example : (⟨1, 100, 10, [⟨1, 2, 3⟩, ⟨0, 2, 3⟩]⟩ : LCfg).DevnumsOK := fun _ => by decide

/-- non-vacuity of `C19_rejects_collisions`: a column separation one too small does collide in the loop, and is rejected -/
example : ¬ ((lanceroLoop ⟨1, 0, 2, [⟨0, 2, 3⟩]⟩).pixels.map (·.num)).Nodup ∧
    lanceroValidate ⟨1, 0, 2, [⟨0, 2, 3⟩]⟩ = some .rowsExceedColSep := by decide

example : ¬ ((lanceroLoop ⟨1, 5, 0, [⟨0, 2, 3⟩, ⟨1, 2, 3⟩]⟩).pixels.map (·.num)).Nodup ∧
    lanceroValidate ⟨1, 5, 0, [⟨0, 2, 3⟩, ⟨1, 2, 3⟩]⟩ = some .colsExceedCardSep := by decide

/-- a rejection for size leaves the column separation at 0; a retry may then be accepted — still collision-free,
because `C19_lancero_injective` holds for every configuration the second call sees -/
example : lanceroNext ⟨1, 19, 35, [⟨11, 4, 2⟩, ⟨7, 4, 2⟩]⟩ = ⟨1, 19, 0, [⟨11, 4, 2⟩, ⟨7, 4, 2⟩]⟩ ∧
    lanceroValidate ⟨1, 19, 35, [⟨11, 4, 2⟩, ⟨7, 4, 2⟩]⟩ = some .colsExceedCardSep ∧
    lanceroValidate ⟨1, 19, 0, [⟨11, 4, 2⟩, ⟨7, 4, 2⟩]⟩ = none := by decide

/-! ### Abaco -/

theorem abaco_ok (pkts : List Group) (t : Tables) (h : abacoPrepare pkts = some t) :
    (allChans (abacoKeys pkts)).Nodup ∧
    t = { nchan := abacoNchan (abacoKeys pkts),
          streams := abacoCols (abacoKeys pkts).length (sortG (abacoKeys pkts)) 0,
          groups := sortG (abacoKeys pkts) } := by
  unfold abacoPrepare abacoOverlap at h
  simp only at h
  by_cases hd : dupFree (allChans (abacoKeys pkts)) = true
  · rw [hd] at h
    simp only [Bool.not_true, Bool.false_eq_true, if_false, Option.some.injEq] at h
    exact ⟨(dupFree_iff_nodup _).mp hd, h.symm⟩
  · simp only [Bool.not_eq_true] at hd
    rw [hd] at h
    simp at h

/-- **Abaco.** `Sample` rejects exactly when some channel number lies in two groups; otherwise the groups are
reported sorted by first channel, they are a rearrangement of the groups seen, the channel numbers are exactly
the members of the groups in that order, numbers and names are pairwise distinct, and there are `nchan` streams. -/
theorem C19_abaco_unique (pkts : List Group) :
    (abacoPrepare pkts = none ↔ ¬ (allChans (abacoKeys pkts)).Nodup) ∧
    ∀ t, abacoPrepare pkts = some t →
      t.groups.Perm (abacoKeys pkts) ∧ t.groups.Pairwise (fun a b => a.first ≤ b.first) ∧
      t.streams.map (·.num) = allChans t.groups ∧
      (t.streams.map (·.num)).Nodup ∧ (t.streams.map (·.name)).Nodup ∧
      t.streams.length = t.nchan := by
  constructor
  · unfold abacoPrepare abacoOverlap
    simp only
    by_cases hd : dupFree (allChans (abacoKeys pkts)) = true
    · rw [hd]; simp [(dupFree_iff_nodup _).mp hd]
    · have hn : ¬ (allChans (abacoKeys pkts)).Nodup := fun h => hd ((dupFree_iff_nodup _).mpr h)
      simp only [Bool.not_eq_true] at hd
      rw [hd]; simp [hn]
  · intro t h
    obtain ⟨hnd, rfl⟩ := abaco_ok pkts t h
    have hperm := sortG_perm (abacoKeys pkts)
    have hnums := abacoCols_nums (abacoKeys pkts).length (sortG (abacoKeys pkts)) 0
    have hnd' : (allChans (sortG (abacoKeys pkts))).Nodup := ((allChans_perm hperm).nodup_iff).mpr hnd
    refine ⟨hperm, sortG_sorted _, hnums, ?_, ?_, ?_⟩
    · simp only; rw [hnums]; exact hnd'
    · simp only; rw [abacoCols_names]
      exact nodup_map_of_inj _ _ (fun a b hab => (chanName_inj hab).2) hnd'
    · have := congrArg List.length hnums
      rw [List.length_map, length_allChans] at this
      simp only; rw [this]
      exact (hperm.map (·.n)).sum_nat

example : (abacoPrepare [⟨8, 4⟩, ⟨0, 4⟩, ⟨8, 4⟩]).map (fun t => (t.groups, t.streams.map (·.num)))
    = some ([⟨0, 4⟩, ⟨8, 4⟩], [0, 1, 2, 3, 8, 9, 10, 11]) := by
  simp [abacoPrepare, abacoOverlap, (dupFree_iff_nodup _).mpr (show (allChans (abacoKeys [⟨8, 4⟩, ⟨0, 4⟩, ⟨8, 4⟩])).Nodup by decide)]
  decide

example : abacoPrepare [⟨0, 4⟩, ⟨3, 4⟩] = none :=
  ((C19_abaco_unique _).1).mpr (by decide)

/-! ### Channel groups -/

theorem generic_ok (n : Int) (t : Tables) (h : genericPrepare n = some t) :
    1 ≤ n ∧ t = { nchan := n.toNat, streams := (List.range n.toNat).map (fun (i : Nat) => mkStream false (i : Int) 0 i 1 n.toNat),
                  groups := [{ first := 0, n := n.toNat }] } := by
  unfold genericPrepare at h
  by_cases hn : n < 1
  · rw [if_pos hn] at h; cases h
  · rw [if_neg hn] at h; simp only [Option.some.injEq] at h; exact ⟨by omega, h.symm⟩

theorem allChans_single (n : Nat) : allChans [{ first := 0, n := n }] = (List.range n).map (fun (i : Nat) => (i : Int)) := by
  unfold allChans Group.range
  simp only [List.flatMap_cons, List.flatMap_nil, List.append_nil]
  apply List.map_congr_left; intro r _; omega

/-- the channel numbers in use, one per pixel -/
def pixelNums (inp : Input) (t : Tables) : List Int :=
  if inp.isTDM then evens (t.streams.map (·.num)) else t.streams.map (·.num)

/-- **Groups cover exactly.** For every source kind and every accepted configuration the channel numbers in use
are, in order, exactly the members of the reported channel groups … -/
theorem C19_groups_cover_list (inp : Input) (t : Tables) (h : inp.model = some t) :
    pixelNums inp t = allChans t.groups := by
  cases inp with
  | lancero c =>
    simp only [Input.model] at h
    cases hp : lanceroPrepare c with
    | error e => rw [hp] at h; cases h
    | ok t' =>
      rw [hp] at h; simp only [Except.toOption, Option.some.injEq] at h; subst h
      obtain ⟨hv, rfl⟩ := lancero_ok c t' hp
      have hpx := devLoop_pixels c c.devs 0 { cnum := c.firstRow, tcf := c.firstRow - c.sepCols } (rowsFit_of_valid c hv)
      have hnums : (lanceroTables c).streams.map (·.num)
          = (lanceroLoop c).pixels.flatMap (fun p => [p.num, p.num]) := by
        simp only [lanceroTables, List.map_flatMap, Pixel.streams, mkStream, List.map_cons, List.map_nil]
      simp only [pixelNums, Input.isTDM, if_true]
      rw [hnums, evens_pairs]
      exact hpx.1
  | abaco p =>
    simp only [Input.model] at h
    simp only [pixelNums, Input.isTDM, Bool.false_eq_true, if_false]
    exact ((C19_abaco_unique p).2 t h).2.2.1
  | generic n =>
    simp only [Input.model] at h
    obtain ⟨_, rfl⟩ := generic_ok n t h
    simp only [pixelNums, Input.isTDM, Bool.false_eq_true, if_false, allChans_single, List.map_map]
    apply List.map_congr_left; intro i _; rfl
  | roach n =>
    simp only [Input.model, Option.some.injEq] at h
    subst h
    simp only [pixelNums, Input.isTDM, Bool.false_eq_true, if_false, roachPrepare, allChans_single, List.map_map]
    apply List.map_congr_left; intro i _; rfl

/-- … so a number is in use iff some reported group contains it. -/
theorem C19_groups_cover_exactly (inp : Input) (t : Tables) (h : inp.model = some t) (x : Int) :
    x ∈ t.streams.map (·.num) ↔ ∃ g ∈ t.groups, g.first ≤ x ∧ x < g.first + (g.n : Int) := by
  rw [← mem_allChans, ← C19_groups_cover_list inp t h]
  unfold pixelNums
  cases inp with
  | lancero c =>
    simp only [Input.model] at h
    cases hp : lanceroPrepare c with
    | error e => rw [hp] at h; cases h
    | ok t' =>
      rw [hp] at h; simp only [Except.toOption, Option.some.injEq] at h; subst h
      obtain ⟨_, rfl⟩ := lancero_ok c t' hp
      have hnums : (lanceroTables c).streams.map (·.num)
          = (lanceroLoop c).pixels.flatMap (fun p => [p.num, p.num]) := by
        simp only [lanceroTables, List.map_flatMap, Pixel.streams, mkStream, List.map_cons, List.map_nil]
      simp only [Input.isTDM, if_true]
      rw [hnums, evens_pairs]
      simp only [List.mem_flatMap, List.mem_map, List.mem_cons, List.not_mem_nil, or_false, or_self]
      constructor
      · rintro ⟨p, hp, rfl⟩; exact ⟨p, hp, rfl⟩
      · rintro ⟨p, hp, rfl⟩; exact ⟨p, hp, rfl⟩
  | abaco p => simp [Input.isTDM]
  | generic n => simp [Input.isTDM]
  | roach n => simp [Input.isTDM]

/-! ### Codes decode to the true geometry -/

/-- every dimension of the geometry fits the 16-bit fields of the row/column code -/
def Input.Fits16 : Input → Prop
  | .lancero c => ∀ d ∈ c.devs, d.nrows < 65536 ∧ d.ncols < 65536
  | .abaco p => (abacoKeys p).length < 65536 ∧ GroupsFit16 (abacoKeys p)
  | .generic n => n < 65536
  | .roach n => n < 65536

/-- the driver's Boolean guard is this predicate -/
theorem fits16_iff (inp : Input) : inp.fits16 = true ↔ inp.Fits16 := by
  cases inp with
  | lancero c => simp [Input.fits16, Input.Fits16, List.all_eq_true]
  | abaco p => simp [Input.fits16, Input.Fits16, GroupsFit16, List.all_eq_true]
  | generic n => simp [Input.fits16, Input.Fits16]
  | roach n => simp [Input.fits16, Input.Fits16]

def expectedGeom (inp : Input) : List (Nat × Nat × Nat × Nat) :=
  if inp.isTDM then dup2 inp.geom else inp.geom

/-- full-strength statement: the codes of every accepted configuration decode to the true geometry -/
def C19_codes_decode_full : Prop :=
  ∀ (inp : Input) (t : Tables), inp.model = some t → t.streams.map decoded = expectedGeom inp

theorem mem_lanceroGeom (devs : List Dev) (x : Nat × Nat × Nat × Nat) (h : x ∈ lanceroGeom devs) :
    ∃ d ∈ devs, x.1 < d.nrows ∧ x.2.1 < d.ncols ∧ x.2.2.1 = d.nrows ∧ x.2.2.2 = d.ncols := by
  unfold lanceroGeom at h
  obtain ⟨d, hd, hx⟩ := List.mem_flatMap.mp h
  unfold devGeom at hx
  obtain ⟨c, hc, hx⟩ := List.mem_flatMap.mp hx
  obtain ⟨r, hr, rfl⟩ := List.mem_map.mp hx
  exact ⟨d, hd, List.mem_range.mp hr, List.mem_range.mp hc, rfl, rfl⟩

/-- **Decode (under the 16-bit guard).** -/
theorem C19_codes_decode_partial (inp : Input) (t : Tables) (hf : inp.Fits16) (h : inp.model = some t) :
    t.streams.map decoded = expectedGeom inp := by
  cases inp with
  | lancero c =>
    simp only [Input.model] at h
    cases hp : lanceroPrepare c with
    | error e => rw [hp] at h; cases h
    | ok t' =>
      rw [hp] at h; simp only [Except.toOption, Option.some.injEq] at h; subst h
      obtain ⟨hv, rfl⟩ := lancero_ok c t' hp
      have hpx := devLoop_pixels c c.devs 0 { cnum := c.firstRow, tcf := c.firstRow - c.sepCols } (rowsFit_of_valid c hv)
      have hg : (lanceroLoop c).pixels.map Pixel.geom = lanceroGeom c.devs := hpx.2.1
      simp only [expectedGeom, Input.isTDM, if_true, Input.geom, lanceroTables, List.map_flatMap]
      rw [← hg]
      unfold dup2
      rw [List.flatMap_map]
      apply flatMap_congr'
      intro p hp
      have hm : p.geom ∈ lanceroGeom c.devs := hg ▸ List.mem_map_of_mem hp
      obtain ⟨d, hd, h1, h2, h3, h4⟩ := mem_lanceroGeom _ _ hm
      have hdd := hf d hd
      simp only [Pixel.geom] at h1 h2 h3 h4
      have e := decoded_mkStream true p.num p.row p.col p.nrows p.ncols (by omega) (by omega) (by omega) (by omega)
      have e' := decoded_mkStream false p.num p.row p.col p.nrows p.ncols (by omega) (by omega) (by omega) (by omega)
      simp only [Pixel.streams, List.map_cons, List.map_nil, e, e', Pixel.geom]
  | abaco p =>
    simp only [Input.model] at h
    obtain ⟨_, rfl⟩ := abaco_ok p t h
    simp only [expectedGeom, Input.isTDM, Bool.false_eq_true, if_false, Input.geom, abacoGeom]
    have hperm := sortG_perm (abacoKeys p)
    exact abacoCols_decoded _ hf.1 _ 0 (fun g hg => hf.2 g (hperm.subset hg)) (by rw [hperm.length_eq]; omega)
  | generic n =>
    simp only [Input.model] at h
    obtain ⟨h1, rfl⟩ := generic_ok n t h
    simp only [Input.Fits16] at hf
    simp only [expectedGeom, Input.isTDM, Bool.false_eq_true, if_false, Input.geom, genericGeom, List.map_map]
    apply List.map_congr_left; intro i hi
    have := List.mem_range.mp hi
    exact decoded_mkStream _ _ _ _ _ _ (by omega) (by omega) (by omega) (by omega)
  | roach n =>
    simp only [Input.model, Option.some.injEq] at h
    subst h
    simp only [Input.Fits16] at hf
    simp only [expectedGeom, Input.isTDM, Bool.false_eq_true, if_false, Input.geom, roachGeom, roachPrepare,
      List.map_map]
    apply List.map_congr_left; intro i hi
    have := List.mem_range.mp hi
    exact decoded_mkStream _ _ _ _ _ _ (by omega) (by omega) (by omega) (by omega)

/-- The guard cannot be dropped: a ROACH (or simulated) source with 65537 channels is accepted and its last
stream's code decodes to row 0 of 1 row — the recorded known finding `C19:rccode-overflow16`. -/
theorem C19_codes_decode_counterexample : ¬ C19_codes_decode_full := by
  intro hfull
  have h := hfull (.roach 65537) (roachPrepare 65537) rfl
  have h2 := congrArg (fun l => l[65536]?) h
  simp only [expectedGeom, Input.isTDM, Bool.false_eq_true, if_false, Input.geom, roachGeom, roachPrepare,
    List.map_map, List.getElem?_map, List.getElem?_range (show 65536 < 65537 by decide), Option.map_some,
    Function.comp, decoded, mkStream, rcRow_rcCode, rcCol_rcCode, rcRows_rcCode, rcCols_rcCode] at h2
  exact absurd h2 (by decide)

example : (Input.lancero ⟨1, 0, 0, [⟨0, 8, 32⟩, ⟨1, 8, 32⟩]⟩).Fits16 := by
  intro d hd; simp only [List.mem_cons, List.not_mem_nil, or_false] at hd
  rcases hd with rfl | rfl <;> decide

/-! ### What a START hands to the file writers -/

/-- **Header identity = reported identity.** Every stream's writers get the name and number of the tables that are
reported as status, the geometry decoded from the same code, and files named after that name; with distinct
names the LJH2.2 and LJH3 file names are all distinct. -/
theorem C19_header_identity_eq_status (pfx : List Char) (t : Tables) :
    (startFiles pfx t).map (fun f => (f.chanName, f.chanNum, f.row, f.col, f.rows, f.cols))
      = t.streams.map (fun s => (s.name, s.num, rcRow s.code, rcCol s.code, rcRows s.code, rcCols s.code)) ∧
    (startFiles pfx t).map (·.ljh) = t.streams.map (fun s => fileName pfx s.name extLJH) ∧
    (startFiles pfx t).map (·.ljh3) = t.streams.map (fun s => fileName pfx s.name extLJH3) ∧
    ((t.streams.map (·.name)).Nodup →
      ((startFiles pfx t).map (·.ljh) ++ (startFiles pfx t).map (·.ljh3)).Nodup) := by
  refine ⟨by simp [startFiles], by simp [startFiles], by simp [startFiles], ?_⟩
  intro hn
  have e1 : IsExt extLJH := Or.inl rfl
  have e3 : IsExt extLJH3 := Or.inr (Or.inr rfl)
  have d13 : extLJH ≠ extLJH3 := by decide
  simp only [startFiles, List.map_map]
  unfold List.Nodup at hn
  rw [List.pairwise_map] at hn
  refine List.nodup_append.mpr ⟨?_, ?_, ?_⟩
  · unfold List.Nodup; rw [List.pairwise_map]
    exact hn.imp (fun hab hh => hab (fileName_inj e1 e1 hh).1)
  · unfold List.Nodup; rw [List.pairwise_map]
    exact hn.imp (fun hab hh => hab (fileName_inj e3 e3 hh).1)
  · intro a ha b hb hab
    obtain ⟨s, _, rfl⟩ := List.mem_map.mp ha
    obtain ⟨s', _, rfl⟩ := List.mem_map.mp hb
    exact d13 (fileName_inj e1 e3 hab).2

/-! ### `LanceroSource.Configure`: the active cards are distinct devices -/

theorem activateLoop_spec (avail : List Dev) : ∀ (l : List Int) (acc : List Dev),
    (acc.map (·.devnum)).Nodup →
    ((activateLoop avail l acc).1.map (·.devnum)).Nodup ∧
    ((activateLoop avail l acc).2 = true ↔
      l.Nodup ∧ (∀ c ∈ l, c ∉ acc.map (·.devnum)) ∧ ∀ c ∈ l, ∃ d ∈ avail, d.devnum = c) := by
  intro l
  induction l with
  | nil => intro acc h; simp [activateLoop, h]
  | cons c cs ih =>
    intro acc hacc
    unfold activateLoop
    cases hf : avail.find? (fun d => d.devnum == c) with
    | none =>
      refine ⟨hacc, ?_⟩
      simp only [Bool.false_eq_true, false_iff]
      rintro ⟨_, _, h3⟩
      obtain ⟨d, hd, hdc⟩ := h3 c List.mem_cons_self
      have := List.find?_eq_none.mp hf d hd
      simp [hdc] at this
    | some d =>
      have hdc : d.devnum = c := by
        have := List.find?_some hf
        simpa using this
      have hdm : d ∈ avail := List.mem_of_find?_eq_some hf
      simp only
      by_cases hany : acc.any (fun a => a.devnum == c) = true
      · rw [if_pos hany]
        refine ⟨hacc, ?_⟩
        simp only [Bool.false_eq_true, false_iff]
        rintro ⟨_, h2, _⟩
        obtain ⟨a, ha, hac⟩ := List.any_eq_true.mp hany
        exact h2 c List.mem_cons_self (List.mem_map.mpr ⟨a, ha, by simpa using hac⟩)
      · rw [if_neg hany]
        have hnot : c ∉ acc.map (·.devnum) := by
          intro hm
          obtain ⟨a, ha, hac⟩ := List.mem_map.mp hm
          exact hany (List.any_eq_true.mpr ⟨a, ha, by simpa using hac⟩)
        have hmap : (acc ++ [d]).map (·.devnum) = acc.map (·.devnum) ++ [c] := by
          rw [List.map_append, List.map_cons, List.map_nil, hdc]
        have hacc' : ((acc ++ [d]).map (·.devnum)).Nodup := by
          rw [hmap]
          refine List.nodup_append.mpr ⟨hacc, by simp, ?_⟩
          intro a ha b hb hab
          simp only [List.mem_singleton] at hb
          subst hb; subst hab; exact hnot ha
        obtain ⟨i1, i2⟩ := ih (acc ++ [d]) hacc'
        refine ⟨i1, ?_⟩
        rw [i2, hmap]
        constructor
        · rintro ⟨h1, h2, h3⟩
          refine ⟨List.nodup_cons.mpr ⟨?_, h1⟩, ?_, ?_⟩
          · intro hc; exact h2 c hc (List.mem_append_right _ (List.mem_singleton.mpr rfl))
          · intro x hx
            rcases List.mem_cons.mp hx with rfl | hx
            · exact hnot
            · intro hm; exact h2 x hx (List.mem_append_left _ hm)
          · intro x hx
            rcases List.mem_cons.mp hx with rfl | hx
            · exact ⟨d, hdm, hdc⟩
            · exact h3 x hx
        · rintro ⟨h1, h2, h3⟩
          have h1' := List.nodup_cons.mp h1
          refine ⟨h1'.2, ?_, fun x hx => h3 x (List.mem_cons_of_mem _ hx)⟩
          intro x hx hm
          rcases List.mem_append.mp hm with hm | hm
          · exact h2 x (List.mem_cons_of_mem _ hx) hm
          · simp only [List.mem_singleton] at hm
            subst hm; exact h1'.1 hx

/-- **Configure never activates a device twice.** Whatever `ActiveCards` list is sent (unsorted, repeats at any
distance, unknown cards) and whether the request is accepted or refused, the active cards it leaves have pairwise
distinct device numbers — so the hypothesis `DevnumsOK` of the Lancero theorems holds for every configuration a
`Start` can see; and the request is accepted exactly when the list has no repeat at all and names only existing devices. -/
theorem C19_configure_devnums_distinct (avail : List Dev) (o : LObj) (r : LReq) :
    ((lanceroConfigure avail o r).1.cfg.devs.map (·.devnum)).Nodup ∧
    (lanceroConfigure avail o r).1.cfg.DevnumsOK ∧
    ((lanceroConfigure avail o r).2 = true ↔ r.active.Nodup ∧ ∀ c ∈ r.active, ∃ d ∈ avail, d.devnum = c) := by
  obtain ⟨h1, h2⟩ := activateLoop_spec avail r.active [] (by simp)
  refine ⟨h1, fun _ => h1, ?_⟩
  simp only [lanceroConfigure]
  rw [h2]
  simp

/-- repeats at any distance are refused: `[0, 1, 0]` and `[1, 0, 2, 1]` leave the cards before the repeat -/
example : (lanceroConfigure [⟨0, 2, 4⟩, ⟨1, 2, 4⟩, ⟨2, 2, 4⟩] LObj.fresh ⟨[0, 1, 0], 1, 100, 0⟩).2 = false ∧
    ((lanceroConfigure [⟨0, 2, 4⟩, ⟨1, 2, 4⟩, ⟨2, 2, 4⟩] LObj.fresh ⟨[1, 0, 2, 1], 1, 100, 0⟩).1.cfg.devs.map (·.devnum)) = [1, 0, 2] ∧
    (lanceroConfigure [⟨0, 2, 4⟩, ⟨1, 2, 4⟩, ⟨2, 2, 4⟩] LObj.fresh ⟨[2, 0, 1], 1, 100, 0⟩).2 = true := by decide

/-! ### One source object, many calls -/

/-- a history seen through the configuration alone -/
def cfgRun : LCfg → List LStep → List (Option Tables)
  | _, [] => []
  | c, s :: ss =>
    let c' := match s with
      | .configure d => d
      | .retry => c
    (lanceroPrepare c').toOption :: cfgRun (lanceroNext c') ss

/-- **History independence (one call).** What `PrepareChannels` reports on a `LanceroSource` object — streams AND
channel groups — is `lanceroPrepare` of the configuration it sees; the group list left by earlier calls (`o.groups`)
does not enter: an accepted call re-initialises it. The configuration it leaves is `lanceroNext`. -/
theorem C19_groups_history_independent (o : LObj) :
    (lanceroObjPrepare o).2 = Input.model (.lancero o.cfg) ∧
    (lanceroObjPrepare o).1.cfg = lanceroNext o.cfg ∧
    ∀ stale : List Group, (lanceroObjPrepare { o with groups := stale }).2 = (lanceroObjPrepare o).2 := by
  have key : ∀ o : LObj, (lanceroObjPrepare o).2 = (lanceroPrepare o.cfg).toOption := by
    intro o
    unfold lanceroObjPrepare lanceroPrepare
    cases lanceroValidate o.cfg <;> simp [Except.toOption]
  refine ⟨key o, ?_, fun stale => by rw [key, key]⟩
  unfold lanceroObjPrepare lanceroNext
  cases lanceroValidate o.cfg <;> rfl

/-- **History independence (any history).** For every object state and every sequence of reconfigurations and
retries, the tables reported after each step are those of the configuration that step sees. Together with
`C19_model_passes_oracle` every accepted step of every history satisfies the oracle. -/
theorem C19_history_independent (o : LObj) (steps : List LStep) : lanceroRun o steps = cfgRun o.cfg steps := by
  induction steps generalizing o with
  | nil => rfl
  | cons s ss ih =>
    unfold lanceroRun cfgRun
    cases s with
    | configure d =>
      obtain ⟨h1, h2, _⟩ := C19_groups_history_independent { o with cfg := d }
      simp only [lanceroObjStep, h1, Input.model, ih, h2]
    | retry =>
      obtain ⟨h1, h2, _⟩ := C19_groups_history_independent o
      simp only [lanceroObjStep, h1, Input.model, ih, h2]

/-- the seeded scenario: column separation changed from 100 to 10 on the same object — the second report has the two
groups of the new numbering only -/
example : (lanceroRun LObj.fresh [.configure ⟨1, 0, 100, [⟨0, 2, 4⟩]⟩, .configure ⟨1, 0, 10, [⟨0, 2, 4⟩]⟩]).map
    (fun r => r.map (·.groups)) = [some [⟨1, 4⟩, ⟨101, 4⟩], some [⟨1, 4⟩, ⟨11, 4⟩]] := by decide

/-! ### The model passes the run-time oracle -/

/-- device numbers distinct (Lancero); nothing to assume for the other kinds -/
def Input.Valid : Input → Prop
  | .lancero c => c.DevnumsOK
  | _ => True

theorem names_enc_dupFree (ss : List Stream) (h : (ss.map (·.name)).Nodup) :
    dupFree (ss.map fun s => (encName s.name : Int)) = true := by
  rw [dupFree_iff_nodup]
  have : (ss.map fun s => (encName s.name : Int)) = (ss.map (·.name)).map (fun n => (encName n : Int)) := by
    rw [List.map_map]; rfl
  rw [this]
  exact nodup_map_of_inj _ _ (fun a b hab => encName_inj a b (by omega)) h

/-- accepted tables of any kind: numbers (per pixel) and names are distinct, there are `nchan` streams,
TDM partners agree -/
theorem model_unique (inp : Input) (t : Tables) (hv : inp.Valid) (h : inp.model = some t) :
    t.streams.length = t.nchan ∧
    (inp.isTDM = true → evens (t.streams.map (·.num)) = odds (t.streams.map (·.num))) ∧
    (pixelNums inp t).Nodup ∧ (t.streams.map (·.name)).Nodup := by
  cases inp with
  | lancero c =>
    simp only [Input.model] at h
    cases hp : lanceroPrepare c with
    | error e => rw [hp] at h; cases h
    | ok t' =>
      rw [hp] at h; simp only [Except.toOption, Option.some.injEq] at h; subst h
      obtain ⟨_, _, _, h4, h5, h6, h7, h8⟩ := C19_lancero_injective c t' hv hp
      refine ⟨h8, fun _ => by rw [h5, h6], ?_, h7⟩
      simp only [pixelNums, Input.isTDM, if_true]; rw [h5]; exact h4
  | abaco p =>
    simp only [Input.model] at h
    obtain ⟨_, _, _, h4, h5, h6⟩ := (C19_abaco_unique p).2 t h
    exact ⟨h6, fun hh => by simp [Input.isTDM] at hh, by simpa [pixelNums, Input.isTDM] using h4, h5⟩
  | generic n =>
    simp only [Input.model] at h
    obtain ⟨_, rfl⟩ := generic_ok n t h
    have hn : (List.map (fun (i : Nat) => (i : Int)) (List.range n.toNat)).Nodup :=
      nodup_map_of_inj _ _ (fun a b hab => by omega) List.nodup_range
    refine ⟨by simp, fun hh => by simp [Input.isTDM] at hh, ?_, ?_⟩
    · simp only [pixelNums, Input.isTDM, Bool.false_eq_true, if_false, List.map_map]
      exact hn
    · simp only [List.map_map]
      have : (List.range n.toNat).map ((fun s : Stream => s.name) ∘ fun (i : Nat) => mkStream false (i : Int) 0 i 1 n.toNat)
          = (List.map (fun (i : Nat) => (i : Int)) (List.range n.toNat)).map (chanName false) := by
        rw [List.map_map]; rfl
      rw [this]
      exact nodup_map_of_inj _ _ (fun a b hab => (chanName_inj hab).2) hn
  | roach n =>
    simp only [Input.model, Option.some.injEq] at h
    subst h
    have hn : (List.map (fun (i : Nat) => (i : Int)) (List.range n)).Nodup :=
      nodup_map_of_inj _ _ (fun a b hab => by omega) List.nodup_range
    refine ⟨by simp [roachPrepare], fun hh => by simp [Input.isTDM] at hh, ?_, ?_⟩
    · simp only [pixelNums, Input.isTDM, Bool.false_eq_true, if_false, roachPrepare, List.map_map]
      exact hn
    · simp only [roachPrepare, List.map_map]
      have : (List.range n).map ((fun s : Stream => s.name) ∘ fun (i : Nat) => mkStream false (i : Int) i 0 n 1)
          = (List.map (fun (i : Nat) => (i : Int)) (List.range n)).map (chanName false) := by
        rw [List.map_map]; rfl
      rw [this]
      exact nodup_map_of_inj _ _ (fun a b hab => (chanName_inj hab).2) hn

/-- **All kinds, all clauses.** For every valid input within the 16-bit guard the model's tables satisfy the very
oracle `chkC19` that judges the implementation's tables at run time; and what a START derives from them
satisfies `chkFiles`. -/
theorem C19_model_passes_oracle (inp : Input) (hv : inp.Valid) (hf : inp.Fits16) :
    chkC19 inp inp.model = none ∧
    ∀ t, inp.model = some t → ∀ pfx, chkFiles t (startFiles pfx t) = none := by
  constructor
  · unfold chkC19
    cases h : inp.model with
    | none => rfl
    | some t =>
      obtain ⟨h1, h2, h3, h4⟩ := model_unique inp t hv h
      have h5 := C19_groups_cover_list inp t h
      have h6 := C19_codes_decode_partial inp t hf h
      unfold pixelNums at h3 h5
      unfold expectedGeom at h6
      simp only [chkTables]
      rw [if_neg (by simpa using h1)]
      rw [if_neg (by intro hh; exact hh.2 (h2 hh.1))]
      rw [if_neg (by simpa using (dupFree_iff_nodup _).mpr h3)]
      rw [if_neg (by simpa using names_enc_dupFree _ h4)]
      rw [if_neg (by rw [h5]; simpa using sameBag_refl _)]
      rw [if_neg (by simpa using h6)]
  · intro t h pfx
    obtain ⟨_, _, _, h4⟩ := model_unique inp t hv h
    obtain ⟨e1, _, _, e4⟩ := C19_header_identity_eq_status pfx t
    unfold chkFiles
    rw [if_neg (by simpa using e4 h4), if_neg (by simpa using e1)]

/-! ### One simulated source, many requests -/

/-- **Simulated sources: history independence.** Whatever the object held before and whether or not the request is
then refused for its buffer length, after a `Configure` request naming `n ≥ 1` channels a `Start` builds the tables
of `n` channels — the same tables a fresh source configured with `n` gets; a request refused at once (`n < 1`)
changes nothing. -/
theorem C19_generic_history_independent (g : GObj) (n : Int) (late : Bool) :
    (1 ≤ n → some (genericStart (genericConfigure g n late).1) = genericPrepare n) ∧
    (n < 1 → (genericConfigure g n late).1 = g ∧ (genericConfigure g n late).2 = false) := by
  unfold genericConfigure genericPrepare genericStart
  constructor
  · intro h; rw [if_neg (by omega), if_neg (by omega)]
  · intro h; rw [if_pos h]; exact ⟨rfl, rfl⟩

/-- … and those tables (names, numbers, one group, one code per channel, `len = nchan`, codes decoding to one row of
`g` columns) pass the run-time oracle for every held count within the 16-bit guard, 0 (never configured) included. -/
theorem C19_generic_start_consistent (g : Nat) (hg : g < 65536) :
    chkTables false (genericGeom g) (genericStart g) ((genericStart g).streams.map decoded) = none := by
  by_cases h0 : g = 0
  · subst h0
    simp [chkTables, genericStart, genericTables, genericGeom, dupFree, sameBag, strictAdj, allChans, Group.range]
  · have hf : (Input.generic (g : Int)).Fits16 := by show (g : Int) < 65536; omega
    have h := (C19_model_passes_oracle (.generic (g : Int)) trivial hf).1
    have hm : Input.model (.generic (g : Int)) = some (genericStart g) := by
      have h1 : ¬ ((g : Int) < 1) := by omega
      simp only [Input.model, genericPrepare, genericStart]
      rw [if_neg h1]; simp
    rw [hm] at h
    simpa [chkC19, Input.isTDM, Input.geom] using h

/-- and conversely the oracle is sound: tables it accepts have distinct numbers per pixel, distinct names, agreeing
partners, and the members of the reported groups (with multiplicity) are a rearrangement of the numbers in use:
every number in use lies in exactly one group, no group has a member that is not in use -/
theorem C19_oracle_sound (tdm : Bool) (geom : List (Nat × Nat × Nat × Nat)) (t : Tables)
    (dec : List (Nat × Nat × Nat × Nat)) (h : chkTables tdm geom t dec = none) :
    t.streams.length = t.nchan ∧
    (tdm = true → evens (t.streams.map (·.num)) = odds (t.streams.map (·.num))) ∧
    (if tdm then evens (t.streams.map (·.num)) else t.streams.map (·.num)).Nodup ∧
    (t.streams.map (·.name)).Nodup ∧
    (if tdm then evens (t.streams.map (·.num)) else t.streams.map (·.num)).Perm (allChans t.groups) ∧
    (allChans t.groups).Nodup ∧
    dec = (if tdm then dup2 geom else geom) := by
  simp only [chkTables] at h
  generalize (if tdm = true then evens (t.streams.map (·.num)) else t.streams.map (·.num)) = pix at h ⊢
  generalize (if tdm = true then dup2 geom else geom) = eg at h ⊢
  split at h; · cases h
  rename_i h1
  split at h; · cases h
  rename_i h2
  split at h; · cases h
  rename_i h3
  split at h; · cases h
  rename_i h4
  split at h; · cases h
  rename_i h5
  split at h; · cases h
  rename_i h6
  have hperm : pix.Perm (allChans t.groups) := sameBag_sound _ _ (by simpa using h5)
  have hnd : pix.Nodup := (dupFree_iff_nodup _).mp (by simpa using h3)
  refine ⟨by simpa using h1, ?_, ?_, ?_, hperm, hperm.nodup_iff.mp hnd, by simpa using h6⟩
  · intro ht; exact Classical.byContradiction (fun hne => h2 ⟨ht, hne⟩)
  · exact (dupFree_iff_nodup _).mp (by simpa using h3)
  · have := (dupFree_iff_nodup _).mp (by simpa using h4)
    have e : (t.streams.map fun s => (encName s.name : Int)) = (t.streams.map (·.name)).map (fun n => (encName n : Int)) := by
      rw [List.map_map]; rfl
    rw [e] at this
    exact nodup_of_nodup_map _ _ this

end DastardV.C19
