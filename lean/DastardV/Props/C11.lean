/-
C11 — control requests: serialised with data, answered once, never wedge or crash.
Theorems over the transition system of `Model/C10.lean` (RPC callers ×m as counters, the
`runLaterIfActive` rendezvous, closures run by the core loop) and over the closure table / validators /
request semantics of `Model/C11.lean`.  As for C10 the liveness half is proved for the model and only
observed on the Go code.
-/
import DastardV.Model.C11
import DastardV.Props.C10
namespace DastardV.C11
open DastardV.C10

/-! ### Exactly one reply on every path of every closure -/

/-- **C11_one_reply_per_path**: the decidable check the driver runs on the closure table regenerated from
rpc_server.go is sound: if it passes, every acyclic path of every closure handed to `runLaterIfActive` sends
exactly one result and contains no construct the reader could not follow. -/
theorem C11_one_reply_per_path (t : List Closure) (h : chkTable t = true) :
    ∀ c ∈ t, c.paths ≠ [] ∧ ∀ p ∈ c.paths, replies p = 1 ∧ Act.unknown ∉ p := by
  intro c hc
  simp only [chkTable, List.all_eq_true, Bool.and_eq_true, Bool.not_eq_true', pathOk, beq_iff_eq] at h
  obtain ⟨h1, h2⟩ := h c hc
  refine ⟨by intro he; simp [he] at h1, fun p hp => ?_⟩
  obtain ⟨a, b⟩ := h2 p hp
  exact ⟨a, by simpa using b⟩

/-- such a path is a well-formed request event of the transition system (`Ev.wf`) -/
theorem C11_table_paths_wf (t : List Closure) (h : chkTable t = true) (c : Closure) (hc : c ∈ t)
    (p : List Act) (hp : p ∈ c.paths) (w : WEff) : (Ev.gotRequest (replies p) w).wf = true := by
  have := (C11_one_reply_per_path t h c hc).2 p hp
  simp [Ev.wf, this.1]

/-- the table of the source as of this writing (the check re-reads the source on every run) -/
def tableSnapshot : List Closure :=
  [⟨"ConfigureProjectorsBasis", [parsePath "ccr", parsePath "cr"]⟩,
   ⟨"ConfigurePulseLengths", [parsePath "ccr", parsePath "ccr"]⟩,
   ⟨"ConfigureTriggers", [parsePath "ccr"]⟩,
   ⟨"CoupleErrToFB", [parsePath "cnr", parsePath "cnr"]⟩,
   ⟨"SetExperimentStateLabel", [parsePath "crn", parsePath "cr"]⟩,
   ⟨"StopTriggerCoupling", [parsePath "ccncnr", parsePath "ccnr"]⟩,
   ⟨"StoreRawDataBlock", [parsePath "cr"]⟩,
   ⟨"WriteComment", [parsePath "cccr", parsePath "cccccr", parsePath "ccccr", parsePath "cr"]⟩,
   ⟨"WriteControl", [parsePath "ccr", parsePath "cr"]⟩,
   ⟨"changeGroupTriggerCoupling", [parsePath "ccnr"]⟩]

example : chkTable tableSnapshot = true := by decide

/-- the defect that was repaired: WriteComment's error path replied twice -/
example : chkTable [⟨"WriteComment", [parsePath "cccrccr", parsePath "cr"]⟩] = false := by decide

/-! ### Validators are total: accept ⇒ every index the handler uses is in range; no panic -/

/-- Go slice indexing: `none` is the run-time panic -/
def goIndex {α} (l : List α) (i : Int) : Option α := if 0 ≤ i then l[i.toNat]? else none

theorem goIndex_isSome {α} (l : List α) (i : Int) (h : inRange l.length i = true) : (goIndex l i).isSome = true := by
  simp only [inRange, Bool.and_eq_true, decide_eq_true_eq] at h
  simp only [goIndex, h.1, if_true]
  have : i.toNat < l.length := by omega
  simp [this]

/-- what `ChangeTriggerState` does after validation: `ds.processors[channelIndex]` for every index -/
def trigAccess {α} (procs : List α) (idx : List Int) : Option (List α) := idx.mapM (goIndex procs)

theorem mapM_isSome {α β} (f : α → Option β) (l : List α) (h : ∀ a ∈ l, (f a).isSome = true) :
    (l.mapM f).isSome = true := by
  induction l with
  | nil => simp
  | cons a as ih =>
    have ha := h a (by simp)
    have has := ih (fun b hb => h b (by simp [hb]))
    obtain ⟨x, hx⟩ := Option.isSome_iff_exists.mp ha
    obtain ⟨xs, hxs⟩ := Option.isSome_iff_exists.mp has
    simp [List.mapM_cons, hx, hxs]

theorem vTrig_total (nchan : Nat) (idx : List Int) :
    vTrig nchan idx ≠ .panic ∧
    (vTrig nchan idx = .accept → idx ≠ [] ∧ (∀ i ∈ idx, inRange nchan i = true) ∧
      ∀ {α} (procs : List α), procs.length = nchan → (trigAccess procs idx).isSome = true) := by
  unfold vTrig
  split
  · simp
  · split
    · simp
    · next hne hany =>
      refine ⟨by simp, fun _ => ?_⟩
      have hall : ∀ i ∈ idx, inRange nchan i = true := by
        intro i hi
        simp only [List.any_eq_true, not_exists, not_and, Bool.or_eq_true, decide_eq_true_eq] at hany
        have := hany i hi
        simp only [inRange, Bool.and_eq_true, decide_eq_true_eq]
        omega
      refine ⟨by intro h; simp [h] at hne, hall, ?_⟩
      intro α procs hl
      exact mapM_isSome _ _ (fun i hi => goIndex_isSome procs i (hl ▸ hall i hi))

theorem vProj_total (nproc : Nat) (nsamp idx rows cols brows bcols : Int) :
    vProj nproc nsamp idx rows cols brows bcols ≠ .panic ∧
    (vProj nproc nsamp idx rows cols brows bcols = .accept →
      inRange nproc idx = true ∧ cols = nsamp ∧ bcols = rows ∧ brows = nsamp) := by
  unfold vProj
  repeat' split
  all_goals simp_all [inRange]
  all_goals omega

theorem vPix_total (nchan : Nat) (nums : List Int) (npix : Nat) :
    vPix nchan nums npix ≠ .panic ∧
    (vPix nchan nums npix = .accept → npix = nchan ∧
      ∀ {α} (pixels : List α), pixels.length = npix → ∀ c ∈ nums, (goIndex pixels (c - 1)).isSome = true) := by
  unfold vPix
  split
  · simp
  · split
    · simp
    · next hn hany =>
      refine ⟨by simp, fun _ => ⟨by simpa using hn, ?_⟩⟩
      intro α pixels hl c hc
      simp only [List.any_eq_true, not_exists, not_and, Bool.or_eq_true, decide_eq_true_eq] at hany
      have := hany c hc
      apply goIndex_isSome
      simp only [inRange, Bool.and_eq_true, decide_eq_true_eq]
      omega

theorem vMix_total (nmix : Nat) (idx : List Int) (nfrac : Nat) :
    vMix nmix idx nfrac ≠ .panic ∧
    (vMix nmix idx nfrac = .accept → mixAccessesOk nmix idx nfrac = true ∧
      ∀ {α β} (mix : List α) (fr : List β), mix.length = nmix → fr.length = nfrac →
        (∀ i ∈ idx, (goIndex mix i).isSome = true) ∧ ∀ k, k < idx.length → (fr[k]?).isSome = true) := by
  unfold vMix
  split
  · simp
  · split
    · simp
    · next hn hany =>
      have hlen : nfrac = idx.length := by simpa using hn
      have hall : ∀ i ∈ idx, inRange nmix i = true := by
        intro i hi
        simp only [List.any_eq_true, not_exists, not_and, Bool.or_eq_true, decide_eq_true_eq] at hany
        have := hany i hi
        simp only [inRange, Bool.and_eq_true, decide_eq_true_eq]
        omega
      refine ⟨by simp, fun _ => ⟨?_, ?_⟩⟩
      · simp only [mixAccessesOk, Bool.and_eq_true, decide_eq_true_eq, List.all_eq_true]
        exact ⟨by omega, hall⟩
      · intro α β mix fr hm hf
        refine ⟨fun i hi => goIndex_isSome mix i (hm ▸ hall i hi), fun k hk => ?_⟩
        have : k < fr.length := by omega
        simp [this]

theorem vPair_total (n : Nat) (add : Bool) (s r : Int) :
    vPair n add s r ≠ .panic ∧ (vPair n add s r = .accept → pairIndexesOk n add s r = true) := by
  unfold vPair pairIndexesOk
  repeat' split
  all_goals simp_all

theorem vRaw_total (n : Int) : vRaw n ≠ .panic ∧ (vRaw n = .accept → 0 ≤ n + n / 2) := by
  unfold vRaw
  split
  · simp
  · refine ⟨by simp, fun _ => ?_⟩
    have : 0 ≤ n := by simp_all
    omega

theorem vLen_total (ns np : Int) : vLen ns np ≠ .panic ∧ (vLen ns np = .accept → 3 ≤ np ∧ np < ns) := by
  unfold vLen
  split
  · simp
  · refine ⟨by simp, fun _ => ?_⟩
    simp_all
    omega

/-- **C11_validators_total**: for ALL argument values (negative, out-of-range, huge indices; lists of any
lengths) no validator panics, and acceptance implies that every slice access the handler (or the consumer of
the accepted request) performs is in range. -/
theorem C11_validators_total :
    (∀ nchan idx, vTrig nchan idx ≠ .panic ∧ (vTrig nchan idx = .accept →
        ∀ {α : Type} (procs : List α), procs.length = nchan → (trigAccess procs idx).isSome = true)) ∧
    (∀ nproc nsamp idx r c br bc, vProj nproc nsamp idx r c br bc ≠ .panic ∧
        (vProj nproc nsamp idx r c br bc = .accept → inRange nproc idx = true)) ∧
    (∀ nchan nums npix, vPix nchan nums npix ≠ .panic ∧ (vPix nchan nums npix = .accept →
        ∀ {α : Type} (pixels : List α), pixels.length = npix → ∀ c ∈ nums, (goIndex pixels (c - 1)).isSome = true)) ∧
    (∀ nmix idx nfrac, vMix nmix idx nfrac ≠ .panic ∧ (vMix nmix idx nfrac = .accept →
        mixAccessesOk nmix idx nfrac = true)) ∧
    (∀ n add s r, vPair n add s r ≠ .panic ∧ (vPair n add s r = .accept → pairIndexesOk n add s r = true)) ∧
    (∀ n, vRaw n ≠ .panic ∧ (vRaw n = .accept → 0 ≤ n + n / 2)) ∧
    (∀ ns np, vLen ns np ≠ .panic ∧ (vLen ns np = .accept → 3 ≤ np ∧ np < ns)) :=
  ⟨fun n i => ⟨(vTrig_total.{0} n i).1, fun h => ((vTrig_total.{0} n i).2 h).2.2⟩,
   fun a b c d e f g => ⟨(vProj_total a b c d e f g).1, fun h => ((vProj_total a b c d e f g).2 h).1⟩,
   fun a b c => ⟨(vPix_total.{0} a b c).1, fun h => ((vPix_total.{0} a b c).2 h).2⟩,
   fun a b c => ⟨(vMix_total.{0, 0} a b c).1, fun h => ((vMix_total.{0, 0} a b c).2 h).1⟩,
   vPair_total, vRaw_total, vLen_total⟩

/-- non-vacuity: ordinary requests are accepted, the formerly crashing ones are rejected -/
example : vTrig 4 [0, 3] = .accept ∧ vTrig 4 [-1] = .reject ∧ vTrig 4 [4] = .reject ∧ vTrig 4 [] = .reject := by decide
example : vPix 2 [1, 2] 2 = .accept ∧ vPix 2 [0, 1] 2 = .reject := by decide
example : vMix 8 [1, 3] 2 = .accept ∧ vMix 8 [1, 3] 1 = .reject ∧ vMix 8 [2] 1 = .reject := by decide
example : vRaw 100 = .accept ∧ vRaw (-1) = .reject := by decide

/-! ### Every request of every history gets exactly one reply (request semantics) -/

theorem reqStep_ret (s : RS) (q : Req) : (reqStep s q).2 = 0 ∨ (reqStep s q).2 = 1 := by
  cases q <;> simp only [reqStep, queued] <;> repeat' split
  all_goals simp

/-- **C11_one_reply_each**: for every history of requests with arbitrary arguments, arrival before or after Stop
/ self-termination, the model produces exactly one reply per request, each either the result or an error. -/
theorem C11_one_reply_each (s : RS) (reqs : List Req) :
    (runReqs s reqs).2.length = reqs.length ∧ ∀ x ∈ (runReqs s reqs).2, x = 0 ∨ x = 1 := by
  induction reqs generalizing s with
  | nil => simp [runReqs]
  | cons q qs ih =>
    simp only [runReqs]
    have h := ih (reqStep s q).1
    refine ⟨by simp [h.1], ?_⟩
    intro x hx
    simp only [List.mem_cons] at hx
    rcases hx with rfl | hx
    · exact reqStep_ret s q
    · exact h.2 x hx

/-- a request that reaches a source whose core loop is gone (after Stop or self-termination, whatever the flag
says) is answered with an error -/
theorem C11_after_end_error (s : RS) (hdead : s.active = false) (idx : List Int) :
    (reqStep s (.trig idx)).2 = 1 := by
  simp [reqStep, queued, hdead]

/-! ### WriteControl START with a pixel map loaded: what each source kind answers -/

/-- **C11_misfit_map_refused**: a START that reaches the map check with a map that does not fit the source (wrong number
of pixels for `nchan / channelsPerPixel`, or a channel number without a pixel) is answered with an error — one reply,
no crash — and leaves the map unloaded and everything else as it was. -/
theorem C11_misfit_map_refused (s : RS) (npix path : Nat) (hf : s.flag = true) (ha : s.active = true)
    (hw : s.writers = false) (hm : s.map = some npix) (hrej : vPix (s.nchan / s.cpp) s.nums npix = .reject) :
    reqStep s (.write 0 path 1) = ({ s with map := none }, 1) := by
  simp [reqStep, queued, wreqOf, hf, ha, hw, hm, hrej]

/-- the answers by source kind: pixels = channels for ROACH / Abaco / simulated sources, channels / 2 for Lancero; ROACH
and the simulated sources number their channels from 0, so no map fits them; after a refusal the map is gone and the
next START goes through -/
example : (runReqs (RS.initSrc "roach" 4 0) [.loadMap 4, .write 0 0 1, .write 0 0 1]).2 = [0, 1, 0] := by decide
example : (runReqs (RS.initSrc "abaco" 4 1) [.loadMap 4, .write 0 0 1, .write 1 0 1, .loadMap 5, .write 0 0 1]).2 = [0, 0, 0, 0, 1] := by decide
example : (runReqs (RS.initSrc "lancero" 8 1) [.loadMap 4, .write 0 0 1]).2 = [0, 0] := by decide
example : (runReqs (RS.initSrc "lancero" 8 1) [.loadMap 8, .write 0 0 1, .write 0 0 1]).2 = [0, 1, 0] := by decide
example : (runReqs (RS.initSrc "tri" 2 0) [.loadMap 2, .write 0 0 1]).2 = [0, 1] := by decide

/-! ### Every caller receives the result of ITS OWN closure -/

/-- invariant of the hand-over: the only caller blocked on `queuedResults` is the one whose closure is running -/
def HGood (s : HS) : Prop :=
  (s.loop = none → s.waiting = []) ∧ (∀ o, s.loop = some o → s.waiting = [o]) ∧ ∀ p ∈ s.got, p.1 = p.2

theorem hgood_step {s s' : HS} {e : HEv} (h : HGood s) (hs : hstep s e = some s') : HGood s' := by
  obtain ⟨h1, h2, h3⟩ := h
  cases e with
  | call id =>
    simp only [hstep, Option.some.injEq] at hs
    subst hs
    exact ⟨h1, h2, h3⟩
  | take id =>
    simp only [hstep] at hs
    split at hs
    · next hc =>
      simp only [Option.some.injEq] at hs
      subst hs
      have hw := h1 hc.1
      refine ⟨by simp, ?_, h3⟩
      intro o ho
      simp only [Option.some.injEq] at ho
      simp [hw, ho]
    · contradiction
  | reply rcv =>
    simp only [hstep] at hs
    split at hs
    · next o ho =>
      split at hs
      · next hm =>
        simp only [Option.some.injEq] at hs
        subst hs
        have hw := h2 o ho
        rw [hw] at hm
        have hrc : rcv = o := by simpa using hm
        subst hrc
        refine ⟨by intro _; simp [hw], by simp, ?_⟩
        intro p hp
        simp only [List.mem_cons] at hp
        rcases hp with rfl | hp
        · rfl
        · exact h3 p hp
      · contradiction
    · contradiction

theorem hrun_good {s s' : HS} {evs : List HEv} (h : HGood s) (hr : hrun s evs = some s') : HGood s' := by
  induction evs generalizing s with
  | nil => simp [hrun] at hr; exact hr ▸ h
  | cons e es ih =>
    simp only [hrun] at hr
    split at hr
    · next s1 h1 => exact ih (hgood_step h h1) hr
    · contradiction

/-- **C11_reply_is_own**: with the unbuffered result channel, in EVERY interleaving of any number of callers
(arbitrary arrival order, callers piling up on `queuedRequests` while a closure runs) each caller that has
received a result received the result of its own closure; and at every moment at most one caller is blocked on
`queuedResults`, namely the one whose closure is running. -/
theorem C11_reply_is_own (evs : List HEv) (s : HS) (hr : hrun HS.init evs = some s) :
    (∀ p ∈ s.got, p.1 = p.2) ∧ s.waiting.length ≤ 1 ∧ (∀ o, s.loop = some o → s.waiting = [o]) := by
  have hg : HGood s := hrun_good (by simp [HGood, HS.init]) hr
  refine ⟨hg.2.2, ?_, hg.2.1⟩
  cases hl : s.loop with
  | none => simp [hg.1 hl]
  | some o => simp [hg.2.1 o hl]

/-- non-vacuity: two callers in flight at once, the second one queued while the first closure runs -/
example : hrun HS.init [.call 1, .call 2, .take 1, .reply 1, .take 2, .reply 2] =
    some { loop := none, sending := [], waiting := [], got := [(2, 2), (1, 1)] } := by decide

/-- what a one-slot buffer on `queuedResults` would allow (the reason the channel must stay unbuffered): the first
closure parks its result, the loop takes the second request, and the second caller fetches the FIRST result -/
theorem C11_buffered_reply_can_be_foreign :
    ∃ s, hbrun { loop := none, slot := none, sending := [], waiting := [], got := [] }
      [.call 1, .call 2, .take 1, .park, .take 2, .fetch 2, .park, .fetch 1] = some s ∧ (2, 1) ∈ s.got ∧ (1, 2) ∈ s.got := by
  refine ⟨{ loop := none, slot := none, sending := [], waiting := [], got := [(1, 2), (2, 1)] }, by decide, by decide, by decide⟩

/-! ### Serialisation with block processing -/

/-- **C11_mutex_with_blocks**: in every state reachable under E, the only steps that change the processing
configuration modelled here (the writing flag) are: the core loop taking a request while it is in its select
(between blocks), the core loop's own exit, and a Stop caller's clean-up, which happens only when no core loop
exists.  In particular never while a block is processed. -/
theorem C11_mutex_with_blocks (o : Bool) (s s' : St) (e : Ev) (h : ReachE o s) (hs : step s e = some s')
    (hch : s'.writing ≠ s.writing) :
    s.lp ≠ .block ∧
    ((∃ n w, e = .gotRequest n w ∧ s.lp = .select) ∨ (e = .loopDeactivate ∧ s.lp = .exiting) ∨
     (e = .stopCleaned ∧ s.lp = .off)) := by
  have hall := reachE_allGood h
  obtain ⟨st, sEnter, sp, kEnter, kDecided, kWait, kReady, kClean, lp, pp, abortClosed, nbClosed, wg, writing, res, opens, crashed,
    fuel, flag, rEnter, rSend, rWait, runOver, stopsDone, asm⟩ := s
  obtain ⟨⟨h1, h2, h3, h4, h5, h6, h7, h8, h9, h10, h11, h12, h13, h14, h15, h16, h17, h18, h19⟩, ⟨e1, e2, e3, e4, e5⟩, hw, hc⟩ := hall
  dsimp only [stoppers, GoodW] at h1 h2 h3 h4 h5 h6 h7 h8 h9 h10 h11 h12 h13 h14 h15 h16 h17 h18 h19 e1 e2 e3 e4 e5 hw hc
  cases e <;> lc_open hs
  all_goals ((try simp only [deactivate] at hch ⊢) <;> (try split at hch) <;>
    simp_all [LPc.alive, LPc.working, PPc.alive, SPc.inStarting, SPc.owner, SrcState.running] <;> (try omega) <;> (try grind))

/-- a request closure and block processing are the same goroutine's program points: never both -/
theorem C11_closure_excludes_block (s : St) (n : Nat) (h : s.lp = .req n) : s.lp ≠ .block := by
  simp [h]

/-! ### No wedge -/

theorem reachW_good {o : Bool} {s : St} (h : ReachW o s) : Good s ∧ GoodW s := by
  obtain ⟨evs, hr⟩ := h
  exact runW_good (good_init o) (goodW_init o) hr

/-- **C11_no_wedge**: in EVERY reachable state (all interleavings of callers, Start, concurrent Stops,
self-termination; every closure replies once) that is not crashed:
(a) a core loop inside a closure that still has a reply to send finds its caller waiting (it never blocks on a
    result nobody reads);
(b) a caller waiting for its result has its closure running;
(c) a caller blocked handing over its request while no core loop exists either sees a Start call about to spawn
    one or takes the source-gone branch and returns (the stale-flag case);
(d) hence whenever some caller has not returned, some non-environment step is enabled. -/
theorem C11_no_wedge (o : Bool) (s : St) (h : ReachW o s) (hc : s.crashed = false) :
    (∀ n, s.lp = .req (n + 1) → (step s .reply).isSome = true) ∧
    (s.rWait > 0 → ∃ n, s.lp = .req (n + 1)) ∧
    (s.rSend > 0 → s.lp = .off → s.sp.owner ∨ (step s .rpcSourceGone).isSome = true) ∧
    (callers s > 0 → ∃ e s', e.isEnv = false ∧ step s e = some s') := by
  obtain ⟨hg, hw⟩ := reachW_good h
  obtain ⟨st, sEnter, sp, kEnter, kDecided, kWait, kReady, kClean, lp, pp, abortClosed, nbClosed, wg, writing, res, opens, crashed,
    fuel, flag, rEnter, rSend, rWait, runOver, stopsDone, asm⟩ := s
  obtain ⟨h1, h2, h3, h4, h5, h6, h7, h8, h9, h10, h11, h12, h13, h14, h15, h16, h17, h18, h19⟩ := hg
  dsimp only [GoodW, callers] at *
  subst hc
  have ha : ∀ n, lp = .req (n + 1) → (step ⟨st, sEnter, sp, kEnter, kDecided, kWait, kReady, kClean, lp, pp, abortClosed, nbClosed, wg,
      writing, res, opens, false, fuel, flag, rEnter, rSend, rWait, runOver, stopsDone, asm⟩ .reply).isSome = true := by
    intro n hn
    subst hn
    have : rWait > 0 := by simp [pendingReplies] at hw; omega
    simp [step, this]
  have hb : rWait > 0 → ∃ n, lp = .req (n + 1) := by
    intro hr
    cases lp with
    | req n =>
      cases n with
      | zero => simp [pendingReplies] at hw; omega
      | succ m => exact ⟨m, rfl⟩
    | _ => simp [pendingReplies] at hw; omega
  have hcc : rSend > 0 → lp = .off → sp.owner ∨ (step ⟨st, sEnter, sp, kEnter, kDecided, kWait, kReady, kClean, lp, pp, abortClosed,
      nbClosed, wg, writing, res, opens, false, fuel, flag, rEnter, rSend, rWait, runOver, stopsDone, asm⟩
      .rpcSourceGone).isSome = true := by
    intro hr hl
    subst hl
    rcases h13 (Or.inr hr) with h | h | h
    · right; simp [step, hr, h]
    · simp [LPc.alive] at h
    · left; exact h
  refine ⟨ha, hb, hcc, ?_⟩
  intro hcal
  -- a Stop caller inside its lock section can always finish it (it holds the state lock meanwhile)
  by_cases hkd : kDecided > 0
  · exact stuck_mk _ .stopSwitched rfl (by simp [step, hkd])
  have hkd0 : kDecided = 0 := by omega
  subst hkd0
  by_cases hre : rEnter > 0
  · cases hf : flag with
    | true => exact stuck_mk _ .rpcPass rfl (by simp [step, hre, hf])
    | false => exact stuck_mk _ .rpcNotActive rfl (by simp [step, hre, hf])
  by_cases hrw : rWait > 0
  · obtain ⟨n, hn⟩ := hb hrw
    exact stuck_mk _ .reply rfl (ha n hn)
  have hrs : rSend > 0 := by omega
  cases lp with
  | off =>
    rcases hcc hrs rfl with h | h
    · rcases h with h | h
      · subst h; exact stuck_mk _ .runStarted rfl (by simp [step])
      · subst h; exact stuck_mk _ .starterDeactivate rfl (by simp [step])
    · exact stuck_mk _ .rpcSourceGone rfl h
  | spawned => exact stuck_mk _ .loopStart rfl (by simp [step])
  | select => exact stuck_mk _ (.gotRequest 1 .keep) rfl (by simp [step, hrs])
  | block => exact stuck_mk _ .processed rfl (by simp [step])
  | exiting => exact stuck_mk _ .loopDeactivate rfl (by simp [step])
  | req n =>
    cases n with
    | zero => exact stuck_mk _ .requestDone rfl (by simp [step])
    | succ m => exact stuck_mk _ .reply rfl (ha m rfl)

/-- the stale-flag scenario is a run of the model: the source ends by itself, the flag is still set, the caller
passes the test, and the source-gone branch returns it -/
example : ∃ s, runW (init false) [.callStart, .startOk, .sampled, .chans, .prepared 0, .activate, .runStarted,
    .loopStart, .flagOn, .sendError, .gotError, .loopDeactivate, .callRpc, .rpcPass, .rpcSourceGone] = some s ∧
    (decide (callers s = 0 ∧ s.flag = true ∧ s.lp = .off)) = true :=
  exists_of_run _ _ (by decide)

/-- two callers and a block: requests are served one at a time between blocks -/
example : ∃ s, runW (init false) [.callStart, .startOk, .sampled, .chans, .prepared 0, .activate, .runStarted,
    .loopStart, .flagOn, .callRpc, .callRpc, .rpcPass, .tick, .rpcPass, .send, .gotRequest 1 .on, .reply,
    .requestDone, .gotBlock, .processed, .gotRequest 1 .keep, .reply, .requestDone] = some s ∧
    (decide (callers s = 0 ∧ s.writing = true ∧ s.lp = .select)) = true :=
  exists_of_run _ _ (by decide)

/-! ### Crash freedom and the deliberate panic on an I/O failure inside block processing (known finding) -/

/-- full statement: no request content, timing or I/O failure terminates the server -/
def C11_no_crash_full : Prop :=
  ∀ o s, ReachW o s → (∀ evs, runW (init o) evs = some s → Ev.stopOnStarting ∉ evs) → s.crashed = false

/-- under E (which excludes an I/O failure inside block processing) no reachable state is crashed -/
theorem C11_no_crash_partial (o : Bool) (s : St) (h : ReachE o s) : s.crashed = false :=
  C10_no_crash_partial o s h

/-- it is false: `ProcessSegments` returning an error (external-trigger / data-drop file cannot be created)
makes `CoreLoop` panic on purpose -/
theorem C11_no_crash_counterexample : ¬ C11_no_crash_full := by
  intro h
  obtain ⟨s, hs, hp⟩ := exists_of_run (runW (init false) [.callStart, .startOk, .sampled, .chans, .prepared 0,
      .activate, .runStarted, .loopStart, .tick, .send, .gotBlock, .processFailed])
    (fun s => decide (s.crashed = true ∧ s.kEnter = 0)) (by decide)
  simp only [decide_eq_true_eq] at hp
  have hne : ∀ (es : List Ev) (a b : St), runW a es = some b → Ev.stopOnStarting ∈ es → b.kEnter > 0 := by
    intro es
    induction es with
    | nil => intro a b _ hm; cases hm
    | cons e es ih =>
      intro a b hr hm
      simp only [runW] at hr
      split at hr
      · split at hr
        · next s1 h1 =>
          rcases List.mem_cons.mp hm with rfl | hm'
          · have hc1 : s1.crashed = true ∧ s1.kEnter > 0 := by
              unfold step at h1
              split at h1
              · contradiction
              · dsimp only at h1
                split at h1
                · next hb => simp only [Option.some.injEq] at h1; subst h1; exact ⟨rfl, hb.1⟩
                · contradiction
            cases es with
            | nil => simp [runW] at hr; exact hr ▸ hc1.2
            | cons e2 es2 =>
              simp only [runW] at hr
              split at hr
              · have : step s1 e2 = none := by unfold step; simp [hc1.1]
                simp [this] at hr
              · contradiction
          · exact ih s1 b hr hm'
        · contradiction
      · contradiction
  have := h false s ⟨_, hs⟩ (by
    intro evs hevs hmem
    have := hne evs _ _ hevs hmem
    omega)
  simp [hp.1] at this

end DastardV.C11
