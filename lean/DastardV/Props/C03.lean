/-
C03 — Abaco ingest: exact demultiplexing, gap filling, continuous frame numbering.

Property theorems over the model `Model/C03.lean` (a transcription of the reader-loop tick of
`abaco.go`), for ALL layouts (any number ≥ 1 of channel groups, any channel counts ≥ 1, any common
frames-per-packet ≥ 1, 16/32-bit payloads mixed at will), ALL loss patterns (any strictly increasing
arrival sequence per group), ALL batchings into ticks (empty ticks, lagging groups) and ALL map
iteration orders (`perms`: one list of group indices per tick, only required to mention every group).

The statements are about the decidable oracle `chkC03` (`chkShape`, `chkFrames`, `chkStream`,
`chkDropped`) — the very functions the driver evaluates on the implementation's blocks.
-/
import DastardV.Lemmas.C03e
namespace DastardV.C03

/-! ### hypotheses -/

/-- the groups of a freshly started source (after `Sample`) agree with the layout `L` -/
def InitOK (L : List GL) (gs : List Group) : Prop :=
  gs.length = L.length ∧ ∀ (i : Nat) (g : Group), gs[i]? = some g →
    ∃ l : GL, L[i]? = some l ∧ g.nchan = l.nchan ∧ g.sync = l.sync ∧ g.lastSN = l.l0 ∧ g.queue = []

/-- one map order per tick, each mentioning every group (order, repetitions and foreign indices are free) -/
def PermsOK (k : Nat) (H : List (List (List Pkt))) (perms : List (List Nat)) : Prop :=
  H.length ≤ perms.length ∧ ∀ p ∈ perms, ∀ i, i < k → i ∈ p


theorem valid_facts {fpp : Nat} {L : List GL} {H : List (List (List Pkt))} (h : validIn fpp L H = true) :
    L ≠ [] ∧ AllOK fpp L (arrOf H) := by
  unfold validIn at h
  simp only [Bool.and_eq_true, decide_eq_true_eq, Bool.not_eq_true', List.all_eq_true, List.mem_range] at h
  obtain ⟨⟨⟨hf, hne⟩, _⟩, hall⟩ := h
  refine ⟨fun hnil => by rw [hnil] at hne; simp at hne, ?_⟩
  intro i l hl
  have := hall i (lt_length_of_getElem? hl)
  rw [hl] at this
  simp only [Bool.and_eq_true, decide_eq_true_eq, List.all_eq_true, pktOK, beq_iff_eq] at this
  obtain ⟨⟨⟨h1, h2⟩, h3⟩, h4⟩ := this
  exact ⟨hf, h1, h2, inc_of_increasing _ _ h3, fun p hp => (h4 p hp).1⟩

theorem sumTo_zero (k : Nat) : sumTo k (fun _ => 0) = 0 := by
  induction k with
  | zero => rfl
  | succ k ih => rw [sumTo_succ, ih]

theorem init_inv (fpp : Nat) (L : List GL) (f0 : Int) (gs : List Group) (hL : L ≠ []) (hi : InitOK L gs) :
    TInv fpp L f0 (fun _ => []) (startSt gs f0) (fun _ => 0) (fun _ => 0) 0 0 := by
  refine ⟨⟨hi.1, ?_⟩, ?_, ?_, by simp [startSt], by simp [startSt, sumTo_zero]⟩
  · intro i g hg
    obtain ⟨l, hl, h1, h2, h3, h4⟩ := hi.2 i g hg
    refine ⟨l, hl, h1, h2, [], [], rfl, ?_, ?_, Nat.zero_le _, rfl⟩
    · rw [h4]; simp [fullOf, fill_nil]
    · rw [h3]; rfl
  · intro i l _; exact ⟨Nat.zero_le _, fun h => absurd h (Nat.lt_irrefl 0)⟩
  · cases L with
    | nil => exact absurd rfl hL
    | cons l ls => exact ⟨0, l, rfl, rfl⟩

/-! ### Packet level: gap filling and de-interleaving -/

theorem Inc.ge : ∀ {A : List Pkt} {e : Nat}, Inc e A → ∀ p ∈ A, e ≤ p.sn := by
  intro A
  induction A with
  | nil => intro e _ p hp; simp at hp
  | cons q qs ih =>
    intro e h p hp
    rcases List.mem_cons.mp hp with hp | hp
    · subst hp; exact h.1
    · have := ih h.2 p hp; have := h.1; omega

theorem spec_at : ∀ (A : List Pkt) (e : Nat), Inc e A → ∀ (p : Pkt), p ∈ A → (specFrom e A)[p.sn - e]? = some (some p) := by
  intro A
  induction A with
  | nil => intro e _ p hp; simp at hp
  | cons q qs ih =>
    intro e h p hp
    rw [specFrom]
    rcases List.mem_cons.mp hp with hp | hp
    · subst hp
      rw [List.getElem?_append_right (by simp)]
      simp
    · have h1 := Inc.ge h.2 p hp
      have h2 := h.1
      rw [List.getElem?_append_right (by simp; omega)]
      simp only [List.length_replicate]
      have e1 : p.sn - e - (q.sn - e) = (p.sn - (q.sn + 1)) + 1 := by omega
      rw [e1, List.getElem?_cons_succ]
      exact ih _ h.2 p hp

theorem Rel.getElem : ∀ {E : List (Option Pkt)} {F : List Pkt}, Rel E F → ∀ (i : Nat) (p : Pkt), E[i]? = some (some p) →
    F[i]? = some p := by
  intro E
  induction E with
  | nil => intro F _ i p h; simp at h
  | cons o E ih =>
    intro F hr i p h
    cases F with
    | nil => exact absurd hr (by simp [Rel])
    | cons q F =>
      cases i with
      | zero =>
        simp only [List.getElem?_cons_zero, Option.some.injEq] at h ⊢
        exact hr.1 p h
      | succ i =>
        simp only [List.getElem?_cons_succ] at h ⊢
        exact ih hr.2 i p h

theorem fakes_mem (nchan : Nat) (p : Pkt) : ∀ (k e : Nat) (q : Pkt), q ∈ fakes nchan p k e →
    q = pretend nchan p q.sn ∧ e ≤ q.sn ∧ q.sn < e + k := by
  intro k
  induction k with
  | zero => intro e q h; simp [fakes] at h
  | succ k ih =>
    intro e q h
    simp only [fakes, List.mem_cons] at h
    rcases h with h | h
    · subst h; exact ⟨rfl, by simp [pretend_sn], by simp [pretend_sn]⟩
    · obtain ⟨h1, h2, h3⟩ := ih (e + 1) q h
      exact ⟨h1, by omega, by omega⟩

theorem fill_members (nchan : Nat) : ∀ (A : List Pkt) (e : Nat), Inc e A → ∀ q ∈ (fillLoop nchan e A).1,
    q ∈ A ∨ ∃ p ∈ A, q = pretend nchan p q.sn ∧ q.sn < p.sn := by
  intro A
  induction A with
  | nil => intro e _ q hq; simp [fill_nil] at hq
  | cons p ps ih =>
    intro e h q hq
    rw [fill_inc_cons _ _ _ _ h.1] at hq
    rcases List.mem_append.mp hq with hq | hq
    · obtain ⟨k1, k2, k3⟩ := fakes_mem nchan p _ _ q hq
      have k4 := h.1
      exact Or.inr ⟨p, by simp, k1, by omega⟩
    · rcases List.mem_cons.mp hq with hq | hq
      · exact Or.inl (by simp [hq])
      · rcases ih _ h.2 q hq with h1 | ⟨p', hp', h1⟩
        · exact Or.inl (List.mem_cons_of_mem _ h1)
        · exact Or.inr ⟨p', List.mem_cons_of_mem _ hp', h1⟩

/-- **fill_inserts_exactly_gaps**: filling an ordered arrival list from `e` yields the consecutive
numbers `e … last`; every arrived packet sits at its own place; everything else is a pretend copy
of a later arrived packet with the same number of frames; the number of inserted packets is the
number of lost ones and the reported `framesAdded` is `fpp` times that. -/
theorem fill_inserts_exactly_gaps (fpp nchan e : Nat) (A : List Pkt) (he : 1 ≤ e) (hn : 0 < nchan)
    (hinc : Inc e A) (hwf : WF fpp nchan A) :
    (fillLoop nchan e A).1.map (·.sn) = List.range' e (endOf e A - e) ∧
    (∀ p ∈ A, (fillLoop nchan e A).1[p.sn - e]? = some p) ∧
    (∀ q ∈ (fillLoop nchan e A).1, q ∈ A ∨ ∃ p ∈ A, q = pretend nchan p q.sn ∧ q.sn < p.sn) ∧
    (fillLoop nchan e A).1.length = A.length + lost e A ∧
    (fillLoop nchan e A).2 = fpp * lost e A ∧
    (∀ q ∈ (fillLoop nchan e A).1, q.data.length = fpp * nchan) ∧
    Rel (specFrom e A) (fillLoop nchan e A).1 := by
  have hrel := fill_rel nchan A e hinc
  refine ⟨fill_sns nchan A e he hinc, ?_, fill_members nchan A e hinc, ?_, fill_added fpp nchan hn A e hinc hwf,
    fill_wf fpp nchan A e hinc hwf, hrel⟩
  · intro p hp
    exact hrel.getElem _ p (spec_at A e hinc p hp)
  · rw [← hrel.length_eq, specFrom_length]

/-! ### From the invariant to the oracle -/

theorem spec_length {fpp : Nat} {l : GL} {A : List Pkt} (h : GOK fpp l A) :
    (specFrom (l.l0 + 1) A).length = (fullOf l A).length :=
  (fill_rel l.nchan A _ h.inc).length_eq

/-- the emitted packet count is the number of packets available in every group -/
theorem inv_navail {fpp : Nat} {L : List GL} {f0 : Int} {H : List (List (List Pkt))} {s : St} {c a : Nat → Nat}
    {n rep : Nat} (hok : AllOK fpp L (arrOf H))
    (hinv : TInv fpp L f0 (arrOf H) s c a n rep) : n = navail L H := by
  have hk : 0 < L.length := by
    obtain ⟨i, l, hl, _⟩ := hinv.maxi
    have := lt_length_of_getElem? hl; omega
  have hc_le : ∀ i l, L[i]? = some l → c i ≤ (fullOf l (arrOf H i)).length := by
    intro i l hl
    have hil := lt_length_of_getElem? hl
    rw [← hinv.rel.1] at hil
    obtain ⟨g, hg⟩ := getElem?_of_lt_length hil
    obtain ⟨l', hl', hr⟩ := hinv.rel.2 i g hg
    rw [hl] at hl'; cases hl'
    obtain ⟨AP, new, h1, _, _, h4, _⟩ := hr.ex
    have hg' := hok i l hl
    rw [h1] at hg' ⊢
    exact Nat.le_trans h4 (fullOf_length_mono hg')
  unfold navail
  generalize hxs : ((List.range L.length).map fun i =>
    match L[i]? with
    | none => 0
    | some g => (specOf g H i).length - skipOf (startSN L) g) = xs
  have hv : ∀ i l, L[i]? = some l →
      (fullOf l (arrOf H i)).length - skipOf (startSN L) l ∈ xs := by
    intro i l hl
    rw [← hxs]
    refine List.mem_map.mpr ⟨i, List.mem_range.mpr (lt_length_of_getElem? hl), ?_⟩
    rw [hl]
    simp only [specOf]
    rw [spec_length (hok i l hl)]
  have hne : xs ≠ [] := by
    rw [← hxs]; intro h
    have := congrArg List.length h
    simp only [List.length_map, List.length_range, List.length_nil] at this; omega
  apply Nat.le_antisymm
  · -- n is below every entry
    have hm := minOr_mem xs hne
    rw [← hxs] at hm
    obtain ⟨j, hj, hjv⟩ := List.mem_map.mp hm
    rw [hxs] at hjv
    rw [← hjv]
    obtain ⟨l, hl⟩ := getElem?_of_lt_length (List.mem_range.mp hj)
    rw [hl]
    simp only [specOf]
    rw [spec_length (hok j l hl)]
    have h1 := hc_le j l hl
    have h2 := hinv.align j l hl
    rcases Nat.eq_zero_or_pos n with h | h
    · omega
    · have := h2.2 h; omega
  · obtain ⟨i, l, hl, hmax⟩ := hinv.maxi
    have h1 := minOr_le xs _ (hv i l hl)
    have h2 := hinv.align i l hl
    rcases Nat.eq_zero_or_pos n with h | h
    · omega
    · have := h2.2 h; omega

theorem streamOK_of_rel (fpp nchan c : Nat) (hn : 0 < nchan) : ∀ (E : List (Option Pkt)) (F : List Pkt),
    Rel E F → WF fpp nchan F → streamOK fpp nchan c E (chanData nchan c F) = true := by
  intro E
  induction E with
  | nil =>
    intro F h _
    cases F with
    | nil => simp [streamOK, chanData]
    | cons _ _ => exact absurd h (by simp [Rel])
  | cons o E ih =>
    intro F h hw
    cases F with
    | nil => exact absurd h (by simp [Rel])
    | cons q F =>
      have hq : (chanOf nchan c q).length = fpp := by
        rw [chanOf_length, hw q (by simp), Nat.mul_div_cancel _ hn]
      have hcd : chanData nchan c (q :: F) = chanOf nchan c q ++ chanData nchan c F := by simp [chanData]
      have hrec := ih F h.2 (fun r hr => hw r (by simp [hr]))
      rw [hcd]
      cases o with
      | none =>
        rw [streamOK, List.drop_left' hq, hrec]
        simp [hq]
      | some p =>
        have hp : q = p := h.1 p rfl
        subst hp
        rw [streamOK, List.drop_left' hq, List.take_left' hq, hrec]
        simp [hq]

theorem chkShape_of (L : List GL) (bs : List Block) (h : ∀ b ∈ bs, ShapeOK L b) : chkShape L bs = true := by
  unfold chkShape
  rw [List.all_eq_true]
  intro b hb
  obtain ⟨h1, h2⟩ := h b hb
  simp only [Bool.and_eq_true, beq_iff_eq, List.all_eq_true]
  exact ⟨h1, h2⟩

/-! ### The run -/

/-- everything `run_spec` gives for a run from the start state -/
theorem run_facts (fpp : Nat) (L : List GL) (f0 : Int) (H : List (List (List Pkt))) (gs : List Group)
    (perms : List (List Nat)) (hv : validIn fpp L H = true) (hi : InitOK L gs) (hp : PermsOK L.length H perms) :
    ∃ s' outs c' a' rep', runFrom 0 (startSt gs f0) H perms = .ok (s', outs) ∧
      TInv fpp L f0 (arrOf H) s' c' a' (navail L H) rep' ∧
      chkFrames f0 (outs.map (·.2)) = true ∧
      (∀ b ∈ outs.map (·.2), ShapeOK L b) ∧
      (∀ i l, L[i]? = some l → ∀ ch, ch < l.nchan →
        catChan (outs.map (·.2)) i ch =
          chanData l.nchan ch (((fullOf l (arrOf H i)).drop (skipOf (startSN L) l)).take (navail L H))) ∧
      rep' = (outs.map (·.2.dropped)).sum ∧
      (∀ tk b, outs.getLast? = some (tk, b) → tk + 1 = H.length →
        s'.pend = 0 ∧ ∀ i l, L[i]? = some l → a' i = addedOf l (arrOf H i)) ∧
      (∀ x ∈ outs, ∃ nb mb, nb + mb ≤ navail L H ∧ 0 < mb ∧ x.2.nframes = mb * fpp ∧
        ∀ i l, L[i]? = some l → x.2.data[i]? = some (window L (arrOf H) l i nb mb)) := by
  obtain ⟨hL, hok⟩ := valid_facts hv
  obtain ⟨s', bs, c', a', n', rep', h1, h2, _, h4, h5, h6, h7, h8, _, h10⟩ :=
    run_spec fpp L f0 hL H 0 (startSt gs f0) (fun _ => []) (arrOf H) (fun _ => 0) (fun _ => 0) 0 0 perms
      (fun i => by simp) hok hp.1 hp.2 (init_inv fpp L f0 gs hL hi)
  have hn := inv_navail hok h2
  subst hn
  refine ⟨s', bs, c', a', rep', h1, h2, by simpa using h4, h5, ?_, by simpa using h7, ?_, ?_⟩
  · intro i l hl ch hch
    have := h6 i l hl ch hch
    simpa using this
  · intro tk b hb ht
    exact h8 tk b hb (by omega)
  · intro x hx
    obtain ⟨nb, mb, _, k2, k3, k4, k5⟩ := h10 x hx
    exact ⟨nb, mb, k2, k3, k4, k5⟩

/-- **C03_no_panic**: on a valid layout (equal frames per packet) the reader loop never panics —
in particular `trimPacketsBefore` never indexes an empty queue and `demuxData` never stops in the
middle of a packet — whatever the losses, the batching and the map order. -/
theorem C03_no_panic (fpp : Nat) (L : List GL) (f0 : Int) (H : List (List (List Pkt))) (gs : List Group)
    (perms : List (List Nat)) (hv : validIn fpp L H = true) (hi : InitOK L gs) (hp : PermsOK L.length H perms) :
    ∃ s' outs, runFrom 0 (startSt gs f0) H perms = .ok (s', outs) := by
  obtain ⟨s', outs, _, _, _, h, _⟩ := run_facts fpp L f0 H gs perms hv hi hp
  exact ⟨s', outs, h⟩

/-- **C03_stream_exact**: per channel, the concatenation of all emitted blocks is exactly: for
every packet of the group from the common start on, in sequence order, the packet's own samples of
that channel if it arrived and `fpp` filler samples if it was lost — for the `navail` packets that
every group can supply (nothing more, nothing less). -/
theorem C03_stream_exact (fpp : Nat) (L : List GL) (f0 : Int) (H : List (List (List Pkt))) (gs : List Group)
    (perms : List (List Nat)) (hv : validIn fpp L H = true) (hi : InitOK L gs) (hp : PermsOK L.length H perms)
    (s' : St) (outs : List (Nat × Block)) (hrun : runFrom 0 (startSt gs f0) H perms = .ok (s', outs)) :
    chkStream fpp L H (outs.map (·.2)) = true := by
  obtain ⟨s2, outs2, _, _, _, h1, _, _, _, h5, _⟩ := run_facts fpp L f0 H gs perms hv hi hp
  rw [hrun] at h1; cases h1
  obtain ⟨_, hok⟩ := valid_facts hv
  unfold chkStream
  rw [List.all_eq_true]
  intro i hi'
  obtain ⟨l, hl⟩ := getElem?_of_lt_length (List.mem_range.mp hi')
  rw [hl]
  simp only [List.all_eq_true, List.mem_range]
  intro ch hch
  rw [h5 i l hl ch hch]
  have hg := hok i l hl
  apply streamOK_of_rel fpp l.nchan ch hg.nchan_pos
  · exact ((fill_rel l.nchan (arrOf H i) _ hg.inc).drop _).take _
  · exact ((fullOf_wf hg).drop _).take _

/-- **C03_sample_count**: every channel has received exactly `fpp` samples for each of the
`navail` packets spanned from the common start to the last number every group has reached. -/
theorem C03_sample_count (fpp : Nat) (L : List GL) (f0 : Int) (H : List (List (List Pkt))) (gs : List Group)
    (perms : List (List Nat)) (hv : validIn fpp L H = true) (hi : InitOK L gs) (hp : PermsOK L.length H perms)
    (s' : St) (outs : List (Nat × Block)) (hrun : runFrom 0 (startSt gs f0) H perms = .ok (s', outs))
    (i : Nat) (l : GL) (hl : L[i]? = some l) (ch : Nat) (hch : ch < l.nchan) :
    (catChan (outs.map (·.2)) i ch).length = navail L H * fpp := by
  obtain ⟨s2, outs2, c', _, _, h1, hinv, _, _, h5, _⟩ := run_facts fpp L f0 H gs perms hv hi hp
  rw [hrun] at h1; cases h1
  obtain ⟨_, hok⟩ := valid_facts hv
  have hg := hok i l hl
  rw [h5 i l hl ch hch, chanData_length fpp l.nchan ch hg.nchan_pos _ (((fullOf_wf hg).drop _).take _),
    List.length_take, List.length_drop]
  congr 1
  -- navail packets are really there
  have hil := lt_length_of_getElem? hl
  rw [← hinv.rel.1] at hil
  obtain ⟨g, hgq⟩ := getElem?_of_lt_length hil
  obtain ⟨l', hl', hr⟩ := hinv.rel.2 i g hgq
  rw [hl] at hl'; cases hl'
  obtain ⟨AP, new, e1, _, _, e4, _⟩ := hr.ex
  have hmono : (fullOf l AP).length ≤ (fullOf l (arrOf H i)).length := by
    rw [e1] at hg ⊢; exact fullOf_length_mono hg
  have hal := hinv.align i l hl
  rcases Nat.eq_zero_or_pos (navail L H) with h | h
  · omega
  · have := hal.2 h; omega

/-- **C03_frames_contiguous**: the first block carries the start frame number and every block
starts where the previous one ended. -/
theorem C03_frames_contiguous (fpp : Nat) (L : List GL) (f0 : Int) (H : List (List (List Pkt))) (gs : List Group)
    (perms : List (List Nat)) (hv : validIn fpp L H = true) (hi : InitOK L gs) (hp : PermsOK L.length H perms)
    (s' : St) (outs : List (Nat × Block)) (hrun : runFrom 0 (startSt gs f0) H perms = .ok (s', outs)) :
    chkFrames f0 (outs.map (·.2)) = true ∧ s'.nextFrame = f0 + ((fpp * navail L H : Nat) : Int) := by
  obtain ⟨s2, outs2, _, _, _, h1, hinv, h3, _⟩ := run_facts fpp L f0 H gs perms hv hi hp
  rw [hrun] at h1; cases h1
  exact ⟨h3, hinv.frame⟩

/-- **C03_groups_aligned**: every block has one channel list per channel of every group, all of the
block's length; together with `C03_stream_exact` (every group's stream starts at the same global
sequence number `startSN` and advances by the same block lengths) this is sample alignment of all
groups in every block. -/
theorem C03_groups_aligned (fpp : Nat) (L : List GL) (f0 : Int) (H : List (List (List Pkt))) (gs : List Group)
    (perms : List (List Nat)) (hv : validIn fpp L H = true) (hi : InitOK L gs) (hp : PermsOK L.length H perms)
    (s' : St) (outs : List (Nat × Block)) (hrun : runFrom 0 (startSt gs f0) H perms = .ok (s', outs)) :
    chkShape L (outs.map (·.2)) = true := by
  obtain ⟨s2, outs2, _, _, _, h1, _, _, h4, _⟩ := run_facts fpp L f0 H gs perms hv hi hp
  rw [hrun] at h1; cases h1
  exact chkShape_of L _ h4

/-- **C03_block_windows**: every emitted block holds, for every group, the same window of global
sequence numbers: the `mb` packets numbered `startSN + nb … startSN + nb + mb - 1` of that group's
gap-filled stream (`window`), `mb * fpp` frames on every channel. -/
theorem C03_block_windows (fpp : Nat) (L : List GL) (f0 : Int) (H : List (List (List Pkt))) (gs : List Group)
    (perms : List (List Nat)) (hv : validIn fpp L H = true) (hi : InitOK L gs) (hp : PermsOK L.length H perms)
    (s' : St) (outs : List (Nat × Block)) (hrun : runFrom 0 (startSt gs f0) H perms = .ok (s', outs)) :
    ∀ x ∈ outs, ∃ nb mb, nb + mb ≤ navail L H ∧ 0 < mb ∧ x.2.nframes = mb * fpp ∧
      ∀ i l, L[i]? = some l →
        x.2.data[i]? = some (window L (arrOf H) l i nb mb) ∧
        -- the window starts at global number startSN + nb in every group
        ∀ q, (((fullOf l (arrOf H i)).drop (skipOf (startSN L) l + nb)).take mb).head? = some q →
          q.sn - l.sync = startSN L + nb := by
  obtain ⟨s2, outs2, _, _, _, h1, _, _, _, _, _, _, h8⟩ := run_facts fpp L f0 H gs perms hv hi hp
  rw [hrun] at h1; cases h1
  obtain ⟨_, hok⟩ := valid_facts hv
  intro x hx
  obtain ⟨nb, mb, k1, k2, k3, k4⟩ := h8 x hx
  refine ⟨nb, mb, k1, k2, k3, ?_⟩
  intro i l hl
  refine ⟨k4 i l hl, ?_⟩
  intro q hq
  have hg := hok i l hl
  have hmem : q ∈ (fullOf l (arrOf H i)).drop (skipOf (startSN L) l + nb) := by
    have := List.mem_of_mem_head? hq
    exact List.mem_of_mem_take this
  -- the head of the dropped list carries number l0 + 1 + skip + nb
  have hsn := congrArg (fun xs => xs.drop (skipOf (startSN L) l + nb)) (fullOf_sns hg)
  simp only [← List.map_drop, List.drop_range'] at hsn
  cases hd : (fullOf l (arrOf H i)).drop (skipOf (startSN L) l + nb) with
  | nil => rw [hd] at hmem; simp at hmem
  | cons q' rest =>
    rw [hd] at hsn hq
    cases mb with
    | zero => omega
    | succ mb' =>
      simp only [List.take_succ_cons, List.head?_cons, Option.some.injEq] at hq
      subst hq
      have hlen : 0 < (fullOf l (arrOf H i)).length - (skipOf (startSN L) l + nb) := by
        have := congrArg List.length hd
        simp only [List.length_drop, List.length_cons] at this; omega
      obtain ⟨r, hr⟩ : ∃ r, (fullOf l (arrOf H i)).length - (skipOf (startSN L) l + nb) = r + 1 := ⟨_, (Nat.succ_pred_eq_of_pos hlen).symm⟩
      rw [hr] at hsn
      simp only [List.map_cons, List.range'_succ, List.cons.injEq, Nat.mul_one] at hsn
      have := skip_eq L i l hl
      have := hg.sync_le
      omega

theorem lostFrames_eq {fpp : Nat} {L : List GL} {H : List (List (List Pkt))} (hok : AllOK fpp L (arrOf H))
    (a : Nat → Nat) (ha : ∀ i l, L[i]? = some l → a i = addedOf l (arrOf H i)) :
    sumTo L.length a = lostFrames fpp L H := by
  unfold lostFrames sumTo
  congr 1
  apply List.map_congr_left
  intro i hi'
  obtain ⟨l, hl⟩ := getElem?_of_lt_length (List.mem_range.mp hi')
  have hg := hok i l hl
  rw [hl, ha i l hl]
  simp only [specOf]
  rw [specFrom_length]
  unfold addedOf
  rw [fill_added fpp l.nchan hg.nchan_pos _ _ hg.inc hg.wf]
  congr 1
  omega

/-- **C03_dropped_count**: whenever the last tick of the history emitted a block, the
dropped-frame counts reported by all blocks so far add up to exactly the frames filled in so far
(`fpp` per lost packet of every group). -/
theorem C03_dropped_count (fpp : Nat) (L : List GL) (f0 : Int) (H : List (List (List Pkt))) (gs : List Group)
    (perms : List (List Nat)) (hv : validIn fpp L H = true) (hi : InitOK L gs) (hp : PermsOK L.length H perms)
    (s' : St) (outs : List (Nat × Block)) (hrun : runFrom 0 (startSt gs f0) H perms = .ok (s', outs)) :
    chkDropped fpp L H outs = true := by
  obtain ⟨s2, outs2, c', a', rep', h1, hinv, _, _, _, h6, h7, _⟩ := run_facts fpp L f0 H gs perms hv hi hp
  rw [hrun] at h1; cases h1
  obtain ⟨_, hok⟩ := valid_facts hv
  unfold chkDropped
  cases hlast : outs.getLast? with
  | none => rfl
  | some x =>
    obtain ⟨tk, b⟩ := x
    simp only []
    by_cases ht : tk + 1 = H.length
    · rw [if_pos (by simpa using ht)]
      obtain ⟨hpend, ha⟩ := h7 tk b hlast ht
      have := hinv.acct
      rw [lostFrames_eq hok a' ha, hpend, h6] at this
      simp only [beq_iff_eq]
      omega
    · rw [if_neg (by simpa using ht)]

/-- **C03_oracle**: the model's output satisfies the whole oracle, for all layouts, loss patterns,
batchings and map orders. -/
theorem C03_oracle (fpp : Nat) (L : List GL) (f0 : Int) (H : List (List (List Pkt))) (gs : List Group)
    (perms : List (List Nat)) (hv : validIn fpp L H = true) (hi : InitOK L gs) (hp : PermsOK L.length H perms)
    (s' : St) (outs : List (Nat × Block)) (hrun : runFrom 0 (startSt gs f0) H perms = .ok (s', outs)) :
    chkC03 fpp L f0 H outs = true := by
  unfold chkC03
  rw [C03_groups_aligned fpp L f0 H gs perms hv hi hp s' outs hrun,
    (C03_frames_contiguous fpp L f0 H gs perms hv hi hp s' outs hrun).1,
    C03_stream_exact fpp L f0 H gs perms hv hi hp s' outs hrun,
    C03_dropped_count fpp L f0 H gs perms hv hi hp s' outs hrun]
  rfl

/-! ### Restart of the same source object -/

/-- **C03_restart_is_fresh**: a later Start of the same source begins from the state of a freshly
made source — whatever the earlier run left behind (`old`: queued packets of a lagging group, sync
offsets, last sequence numbers, a pending dropped-frame count).  Hence the blocks of the new run are
a function of the new run's start-up groups and packets only. -/
theorem C03_restart_is_fresh (old old' : St) (gs : List Group) (f0 : Int) (H : List (List (List Pkt)))
    (perms : List (List Nat)) :
    runFrom 0 (restartSt old gs f0) H perms = runFrom 0 (restartSt old' gs f0) H perms ∧
    runFrom 0 (restartSt old gs f0) H perms = runFrom 0 (startSt gs f0) H perms :=
  ⟨rfl, rfl⟩

/-- **C03_restart_oracle**: every clause of the oracle holds for the run after a restart, for all
earlier runs (any state `old` reached by any history), layouts, losses, batchings and map orders. -/
theorem C03_restart_oracle (old : St) (fpp : Nat) (L : List GL) (f0 : Int) (H : List (List (List Pkt))) (gs : List Group)
    (perms : List (List Nat)) (hv : validIn fpp L H = true) (hi : InitOK L gs) (hp : PermsOK L.length H perms) :
    ∃ s' outs, runFrom 0 (restartSt old gs f0) H perms = .ok (s', outs) ∧ chkC03 fpp L f0 H outs = true := by
  obtain ⟨s', outs, h⟩ := C03_no_panic fpp L f0 H gs perms hv hi hp
  exact ⟨s', outs, h, C03_oracle fpp L f0 H gs perms hv hi hp s' outs h⟩

/-! ### Non-vacuity: a concrete lagging, lossy two-group history satisfies the hypotheses,
runs without panic and emits the expected stream (the scenario of the repaired defect:
queue `[5 6]` left over while group 1 lags, then `8` arrives and `7` must be filled in). -/

def exL : List GL := [⟨1, 4, 0⟩, ⟨1, 4, 0⟩]
def exGs : List Group := [⟨0, 1, [], 4, 0⟩, ⟨1, 1, [], 4, 0⟩]
def exP (sn : Nat) : Pkt := ⟨sn, false, [(sn : Int) * 10]⟩
def exH : List (List (List Pkt)) := [[[exP 5, exP 6], []], [[exP 8], [exP 5, exP 6, exP 7, exP 8]]]

example : validIn 1 exL exH = true := by decide
example : InitOK exL exGs := by
  refine ⟨rfl, ?_⟩
  intro i g hg
  match i, hg with
  | 0, hg => cases hg; exact ⟨_, rfl, rfl, rfl, rfl, rfl⟩
  | 1, hg => cases hg; exact ⟨_, rfl, rfl, rfl, rfl, rfl⟩
example : PermsOK exL.length exH [[1, 0], [0, 1]] := by
  refine ⟨by decide, ?_⟩
  intro p hp i hi
  have hi' : i = 0 ∨ i = 1 := by simp [exL] at hi; omega
  simp only [List.mem_cons, List.not_mem_nil, or_false] at hp
  rcases hp with hp | hp <;> rcases hi' with h | h <;> subst hp <;> subst h <;> simp
example : (runFrom 0 (startSt exGs 0) exH [[1, 0], [0, 1]]).toOption.map (·.2) =
    some [(1, { data := [[[50, 60, 80, 80]], [[50, 60, 70, 80]]], nframes := 4, dropped := 1, first := 0 })] := by
  decide

/-- the excluded point: with unequal frames per packet (group 0: 2, group 1: 3) the same loop
panics in `demuxData` ("still frames to fill"), so the equal-frames guard of `validIn` is needed -/
def exGs2 : List Group := [⟨0, 1, [], 4, 0⟩, ⟨1, 1, [], 4, 0⟩]
def exH2 : List (List (List Pkt)) := [[[⟨5, false, [1, 2]⟩, ⟨6, false, [3, 4]⟩], [⟨5, false, [1, 2, 3]⟩, ⟨6, false, [4, 5, 6]⟩]]]

theorem C03_unequal_fpp_panics : (runFrom 0 (startSt exGs2 0) exH2 [[0, 1]]).toOption = none := by decide

end DastardV.C03
