/-
C01 — each pulse record is an exact, correctly labelled excerpt of its channel stream.

Property theorems over the pipeline model (`Model/Trig.lean`, `Model/Pipe.lean`), for ALL
streams, ALL partitions into blocks (any lengths), ALL trigger configurations (edge, level,
auto, edge-multi with any kink-fit oracle, group triggers) and ALL control histories:

* `C01_block_exact`   one `ProcessSegments` call: every record published for channel `j`
                      (primary or secondary) is the excerpt of the delivered stream around its
                      stated trigger frame, carries the time the block stamp assigns to the trigger
                      sample, the block's signedness, and — outside edge-multi — exactly the
                      configured record / pre-trigger lengths;
* `C01_records_exact` the same for every block of any operation sequence (`runOps`), by
                      induction with the invariant `SrcInv` (each channel's buffer is a suffix of
                      what was delivered; `first` is the frame of its first sample);
* `C01_oracle_sound`  a record satisfying `RecOK` and the length clause is accepted by the
                      run-time oracle `chkRec` that judges the implementation's records.

* `C01_no_crash`      **no crash, whole source**: from the state `PrepareRun` leaves, NO sequence of
                      operations — ConfigureTriggers (any channels, also edge-multi, also refused ones),
                      ConfigurePulseLengths, group-trigger edits, and data blocks of any lengths (also
                      empty or shorter than a record; one segment of equal length per channel, consecutive
                      frame numbers) — makes `ProcessSegments` or a request panic: every search read,
                      every primary record cut, the broker's table look-ups and every secondary
                      (group-trigger) record cut stay inside the buffers (invariant `SrcSafe`,
                      `Lemmas/NoCrash.lean`; edge-multi part = `EmtSafe` of C08).
* `C01_no_crash_nonEMT` no buffer content, trigger state or block length makes the edge / level /
                      auto passes or their record cuts index out of range (`3 ≤ npre < nsamp`).
-/
import DastardV.Lemmas.Pipe4
import DastardV.Lemmas.Passes
import DastardV.Model.PipeJudge
import DastardV.Lemmas.NoCrash
namespace DastardV.C01
open Trig Pipe

/-- invariant of one channel between blocks; `per` = the sample period of the run's blocks -/
def ChanInv (per f0 : Int) (G : List Nat) (c : Chan) : Prop :=
  ((G = [] ∧ c.buf = []) ∨ (Rep G f0 c ∧ c.period = per)) ∧ 0 ≤ c.nsamp ∧ 0 ≤ c.emt.nsamp

/-- invariant of the source: channel `j` represents the stream `Gs[j]` delivered to it so far -/
def SrcInv (per f0 : Int) (Gs : List (List Nat)) (cs : List Chan) : Prop :=
  cs.length = Gs.length ∧
    ∀ (j : Nat) (c : Chan), cs[j]? = some c → ∃ G, Gs[j]? = some G ∧ ChanInv per f0 G c

/-- what C01 demands of a record of a channel whose delivered stream is `G` (sample 0 = frame
`f0`), emitted while processing the block stamped (`first`, `t0`) with sample period `period` -/
structure RecOK (G : List Nat) (f0 first t0 period : Int) (signed : Bool) (r : Rec) : Prop where
  excerpt : Excerpt G f0 r
  time : r.time = t0 + (r.frame - first) * period
  signed : r.signed = signed

theorem chanInv_of_ctl {per f0 : Int} {G : List Nat} {c c' : Chan} (h : ChanInv per f0 G c) (hc : Ctl c c') :
    ChanInv per f0 G c' := by
  obtain ⟨h1, h2, h3, h4, _, h6⟩ := hc
  obtain ⟨hr, hn, he⟩ := h
  refine ⟨?_, (h6 ⟨hn, he⟩).1, (h6 ⟨hn, he⟩).2⟩
  rcases hr with ⟨hg, hb⟩ | ⟨⟨k, hk, hb, hf⟩, hp⟩
  · exact Or.inl ⟨hg, by rw [h1, hb]⟩
  · exact Or.inr ⟨⟨k, hk, by rw [h1, hb], by rw [h2, hf]⟩, by rw [h4, hp]⟩

theorem srcInv_of_listCtl {per f0 : Int} {Gs : List (List Nat)} {cs cs' : List Chan}
    (h : SrcInv per f0 Gs cs) (hc : ListCtl cs cs') : SrcInv per f0 Gs cs' := by
  refine ⟨hc.1.trans h.1, ?_⟩
  intro j c' hj
  obtain ⟨c, hcj, hctl⟩ := hc.2 j c' hj
  obtain ⟨G, hG, hinv⟩ := h.2 j c hcj
  exact ⟨G, hG, chanInv_of_ctl hinv hctl⟩

/-- the channel after `append` represents `G ++ d` -/
theorem append_inv {per f0 : Int} {G : List Nat} {c : Chan} (h : ChanInv per f0 G c)
    (d : List Nat) (first t0 : Int) (sg : Bool) (hcont : first = f0 + G.length) :
    Rep (G ++ d) f0 (append c d first t0 per sg) ∧ TimeRep first t0 (append c d first t0 per sg) := by
  obtain ⟨hr, _, _⟩ := h
  rcases hr with ⟨hg, hb⟩ | ⟨hrep, hp⟩
  · subst hg
    have : first = f0 := by simpa using hcont
    subst this
    exact ⟨by simpa using append_rep_first hb d first t0 per sg, append_timeRep c d first t0 per sg (Or.inl hb)⟩
  · exact ⟨append_rep hrep d first t0 per sg hcont, append_timeRep c d first t0 per sg (Or.inr hp)⟩

theorem rep_congr {G : List Nat} {f0 : Int} {c c' : Chan} (h : Rep G f0 c) (hb : c'.buf = c.buf)
    (hf : c'.first = c.first) : Rep G f0 c' := by
  obtain ⟨k, hk, hb', hf'⟩ := h
  exact ⟨k, hk, by rw [hb, hb'], by rw [hf, hf']⟩

theorem timeRep_congr {fB tB : Int} {c c' : Chan} (h : TimeRep fB tB c) (hf : c'.first = c.first)
    (ht : c'.t0 = c.t0) (hp : c'.period = c.period) : TimeRep fB tB c' := by
  intro i
  have := h i
  simp only [timeOf] at this ⊢
  rw [ht, hp, hf]; exact this

/-- a cut of a channel that represents `G` and carries the block stamp is `RecOK` -/
theorem cut_recOK {G : List Nat} {f0 first t0 : Int} {c : Chan} (hrep : Rep G f0 c)
    (ht : TimeRep first t0 c) {i p n : Int} {r : Rec} (hc : cut c i p n = some r) :
    RecOK G f0 first t0 c.period c.signed r ∧ r.npre = p ∧ (r.data.length : Int) = n := by
  obtain ⟨hfr, hnp, hlen, hsg, htm, hex⟩ := cut_exact hrep hc
  refine ⟨⟨hex, ?_, hsg⟩, hnp, hlen⟩
  rw [htm, ht i, hfr]

/-- One `ProcessSegments` call.  `Gs` = streams delivered before the block, all ending at frame
`first − 1` (`hcont`); the block has the run's sample period `per`. -/
theorem C01_block_exact {per f0 : Int} {Gs : List (List Nat)} {s s' : Src} {first t0 : Int}
    {signed : List Bool} {data : List (List Nat)} {zts : List (List (Int × Int))} {rs : List (List Rec)}
    (hinv : SrcInv per f0 Gs s.chans)
    (hcont : ∀ G ∈ Gs, first = f0 + G.length)
    (h : opBlock s first t0 per signed data zts = some (s', rs)) :
    SrcInv per f0 (List.zipWith (· ++ ·) Gs data) s'.chans ∧
    ∀ (j : Nat) (recs : List Rec), rs[j]? = some recs →
      ∃ G d c, Gs[j]? = some G ∧ data[j]? = some d ∧ s.chans[j]? = some c ∧
        ∀ r ∈ recs, RecOK (G ++ d) f0 first t0 per (signed[j]?.getD false) r ∧
          (c.ts.edgeMulti = false → r.npre = c.npre ∧ (r.data.length : Int) = c.nsamp) := by
  unfold opBlock at h
  simp only [bind, pure] at h
  split at h
  · simp at h
  rename_i hdl
  simp only [Option.bind_eq_some_iff] at h
  obtain ⟨p1, hp1, h⟩ := h
  split at h
  · simp at h
  rename_i secMap hdist
  simp only [Option.bind_eq_some_iff, Option.some.injEq, Prod.mk.injEq] at h
  obtain ⟨p2, hp2, hs', hrs⟩ := h
  subst hs'; subst hrs
  obtain ⟨hl1, g1⟩ := phase1_get first t0 per s.chans signed data zts p1 hp1
  obtain ⟨hl2, g2⟩ := phase2_get secMap p1 0 p2 hp2
  have hdl' : data.length = s.chans.length := by
    by_cases hh : data.length = s.chans.length
    · exact hh
    · exact absurd hh (by simpa using hdl)
  -- per-index facts
  have key : ∀ (j : Nat) (c3 : Chan) (out : List Rec), p2[j]? = some (c3, out) →
      ∃ G d c, Gs[j]? = some G ∧ data[j]? = some d ∧ s.chans[j]? = some c ∧
        ChanInv per f0 (G ++ d) c3 ∧
        ∀ r ∈ out, RecOK (G ++ d) f0 first t0 per (signed[j]?.getD false) r ∧
          (c.ts.edgeMulti = false → r.npre = c.npre ∧ (r.data.length : Int) = c.nsamp) := by
    intro j c3 out hj
    obtain ⟨c2, prim, fl, sec, hp1j, hsec, hc3, hout⟩ := g2 j c3 out hj
    obtain ⟨c, d, hcj, hdj, htd⟩ := g1 j c2 prim hp1j
    obtain ⟨G, hGj, hci⟩ := hinv.2 j c hcj
    have hcontj : first = f0 + G.length := hcont G (List.mem_of_getElem? hGj)
    obtain ⟨hrep1, htime1⟩ := append_inv hci d first t0 (signed[j]?.getD false) hcontj
    obtain ⟨hss, hprim⟩ := triggerData_recs htd
    obtain ⟨e1, e2, e3, e4, e5, e6, e7, e8⟩ := hss
    have hctl := triggerData_ctl htd
    have hrep2 : Rep (G ++ d) f0 c2 := rep_congr hrep1 e1 e2
    have htime2 : TimeRep first t0 c2 := timeRep_congr htime1 e2 e3 e4
    have hper1 : (append c d first t0 per (signed[j]?.getD false)).period = per := rfl
    have hsg1 : (append c d first t0 per (signed[j]?.getD false)).signed = signed[j]?.getD false := rfl
    have hnp1 : (append c d first t0 per (signed[j]?.getD false)).npre = c.npre := rfl
    have hns1 : (append c d first t0 per (signed[j]?.getD false)).nsamp = c.nsamp := rfl
    have hts1 : (append c d first t0 per (signed[j]?.getD false)).ts = c.ts := rfl
    have hemt1 : (append c d first t0 per (signed[j]?.getD false)).emt = c.emt := rfl
    have hnn : 0 ≤ c2.nsamp ∧ 0 ≤ c2.emt.nsamp := by
      apply hctl.2.2.2.2.2
      rw [hns1, hemt1]; exact ⟨hci.2.1, hci.2.2⟩
    refine ⟨G, d, c, hGj, hdj, hcj, ?_, ?_⟩
    · -- the channel after trimming
      subst hc3
      refine ⟨Or.inr ⟨trim_rep hrep2 hnn.2, ?_⟩, ?_, ?_⟩
      · have : (trim c2).period = c2.period := by unfold trim; simp only; split <;> rfl
        rw [this, e4]; exact hper1
      · have : (trim c2).nsamp = c2.nsamp := by unfold trim; simp only; split <;> rfl
        rw [this]; exact hnn.1
      · have : (trim c2).emt = c2.emt := by unfold trim; simp only; split <;> rfl
        rw [this]; exact hnn.2
    · intro r hr
      subst hout
      rcases List.mem_append.mp hr with hr | hr
      · obtain ⟨i, p, n, hcut, hfix⟩ := hprim r hr
        obtain ⟨hok, hnp, hlen⟩ := cut_recOK hrep1 htime1 hcut
        rw [hper1, hsg1] at hok
        refine ⟨hok, ?_⟩
        intro hem
        rw [hts1] at hfix
        obtain ⟨hp, hn⟩ := hfix hem
        rw [hnp, hlen, hp, hn]
        exact ⟨hnp1, hns1⟩
      · obtain ⟨i, hcut⟩ := secondaries_recs hsec r hr
        obtain ⟨hok, hnp, hlen⟩ := cut_recOK hrep2 htime2 hcut
        rw [e4, e5, hper1, hsg1] at hok
        refine ⟨hok, fun _ => ?_⟩
        rw [hnp, hlen, e6, e7]
        exact ⟨hnp1, hns1⟩
  constructor
  · -- invariant after the block
    refine ⟨by simp [hl2, hl1, hinv.1, hdl'], ?_⟩
    intro j c3 hj
    simp only [List.getElem?_map] at hj
    cases hp2j : p2[j]? with
    | none => simp [hp2j] at hj
    | some pr =>
      obtain ⟨c3', out⟩ := pr
      simp only [hp2j, Option.map_some, Option.some.injEq] at hj
      subst hj
      obtain ⟨G, d, c, hGj, hdj, _, hci3, _⟩ := key j c3' out hp2j
      exact ⟨G ++ d, by simp [List.getElem?_zipWith, hGj, hdj], hci3⟩
  · intro j recs hj
    simp only [List.getElem?_map] at hj
    cases hp2j : p2[j]? with
    | none => simp [hp2j] at hj
    | some pr =>
      obtain ⟨c3', out⟩ := pr
      simp only [hp2j, Option.map_some, Option.some.injEq] at hj
      subst hj
      obtain ⟨G, d, c, hGj, hdj, hcj, _, hrecs⟩ := key j c3' out hp2j
      exact ⟨G, d, c, hGj, hdj, hcj, hrecs⟩

/-! ### Any operation sequence -/

/-- the streams delivered after an operation -/
def deliver (Gs : List (List Nat)) : Op → List (List Nat)
  | .block _ _ _ _ data => List.zipWith (· ++ ·) Gs data
  | _ => Gs

/-- contiguity / period assumption for one operation -/
def OpContig (per f0 : Int) (Gs : List (List Nat)) : Op → Prop
  | .block first _ period _ _ => period = per ∧ ∀ G ∈ Gs, first = f0 + G.length
  | _ => True

/-- what the property assumes of the source: the blocks of a run carry contiguous frame numbers
(`first` of a block = frame after the last delivered sample) and one sample period `per`. -/
def Contig (per f0 : Int) : List (List Nat) → List Op → Prop
  | _, [] => True
  | Gs, op :: ops =>
    OpContig per f0 Gs op ∧ Contig per f0 (deliver Gs op) ops

/-- the judgement on the output of one operation (only data blocks produce records) -/
def StepOK (per f0 : Int) (Gs : List (List Nat)) (s : Src) : Op → Out → Prop
  | .block first t0 _ signed data, .recs rs =>
    ∀ (j : Nat) (recs : List Rec), rs[j]? = some recs →
      ∃ G d c, Gs[j]? = some G ∧ data[j]? = some d ∧ s.chans[j]? = some c ∧
        ∀ r ∈ recs, RecOK (G ++ d) f0 first t0 per (signed[j]?.getD false) r ∧
          (c.ts.edgeMulti = false → r.npre = c.npre ∧ (r.data.length : Int) = c.nsamp)
  | _, _ => True

/-- every record of every block output is `RecOK` w.r.t. the stream delivered up to and including
that block, and has the configured lengths of the model state `s` before the block unless the
channel is in edge-multi mode. -/
def OutsOK (zts : List (List (Int × Int))) (per f0 : Int) :
    List (List Nat) → Src → List Op → List Out → Prop
  | _, _, [], _ => True
  | _, _, _ :: _, [] => True
  | Gs, s, op :: ops, out :: outs =>
    StepOK per f0 Gs s op out ∧
    (match stepOp zts s op with
      | some (s', _) => OutsOK zts per f0 (deliver Gs op) s' ops outs
      | none => True)

theorem stepOp_inv {zts : List (List (Int × Int))} {per f0 : Int} {Gs : List (List Nat)} {s s' : Src}
    {op : Op} {out : Out} (hinv : SrcInv per f0 Gs s.chans)
    (hc : OpContig per f0 Gs op)
    (h : stepOp zts s op = some (s', out)) :
    SrcInv per f0 (deliver Gs op) s'.chans ∧
    StepOK per f0 Gs s op out := by
  cases op with
  | trig r =>
    simp only [stepOp, bind, Option.bind_eq_some_iff, pure, Option.some.injEq, Prod.mk.injEq] at h
    obtain ⟨⟨s1, e⟩, ht, rfl, rfl⟩ := h
    exact ⟨srcInv_of_listCtl hinv (opTrig_ctl ht), trivial⟩
  | len ns np =>
    simp only [stepOp, Option.some.injEq, Prod.mk.injEq] at h
    obtain ⟨rfl, rfl⟩ := h
    exact ⟨srcInv_of_listCtl hinv (opLen_ctl s ns np), trivial⟩
  | gadd ps =>
    simp only [stepOp, Option.some.injEq, Prod.mk.injEq] at h
    obtain ⟨rfl, rfl⟩ := h
    exact ⟨hinv, trivial⟩
  | gdel ps =>
    simp only [stepOp, Option.some.injEq, Prod.mk.injEq] at h
    obtain ⟨rfl, rfl⟩ := h
    exact ⟨hinv, trivial⟩
  | gstop =>
    simp only [stepOp, Option.some.injEq, Prod.mk.injEq] at h
    obtain ⟨rfl, rfl⟩ := h
    exact ⟨hinv, trivial⟩
  | block first t0 period signed data =>
    simp only [stepOp, bind, Option.bind_eq_some_iff, pure, Option.some.injEq, Prod.mk.injEq] at h
    obtain ⟨⟨s1, rs⟩, hb, rfl, rfl⟩ := h
    obtain ⟨hp, hcont⟩ := hc
    subst hp
    exact C01_block_exact hinv hcont hb

/-- **C01, all histories.**  For every operation sequence (trigger / length / group-trigger
requests interleaved with data blocks of any lengths) on which the model does not panic, every
record it publishes is exact and correctly labelled. -/
theorem C01_records_exact (zts : List (List (Int × Int))) (per f0 : Int) :
    ∀ (ops : List Op) (Gs : List (List Nat)) (s : Src) (outs : List Out),
      SrcInv per f0 Gs s.chans → Contig per f0 Gs ops → runOps zts s ops = some outs →
      OutsOK zts per f0 Gs s ops outs
  | [], _, _, _, _, _, _ => by simp [OutsOK]
  | op :: ops, Gs, s, outs, hinv, hcont, h => by
    simp only [runOps, bind, Option.bind_eq_some_iff, pure, Option.some.injEq] at h
    obtain ⟨⟨s', out⟩, hstep, rest, hrest, rfl⟩ := h
    obtain ⟨hc, hcont'⟩ := hcont
    obtain ⟨hinv', hout⟩ := stepOp_inv hinv hc hstep
    refine ⟨hout, ?_⟩
    rw [hstep]
    exact C01_records_exact zts per f0 ops (deliver Gs op) s' rest hinv' hcont' hrest

/-- the freshly prepared source satisfies the invariant (nothing delivered yet) -/
theorem prepare_inv (per f0 : Int) (nch : Nat) (npre nsamp : Int) (saved : List (Nat × TS)) (hn : 0 ≤ nsamp) :
    SrcInv per f0 (List.replicate nch []) (prepare nch npre nsamp saved).chans := by
  refine ⟨by simp [prepare], ?_⟩
  intro j c hj
  simp only [prepare, List.getElem?_map] at hj
  cases hr : (List.range nch)[j]? with
  | none => simp [hr] at hj
  | some i =>
    simp only [hr, Option.map_some, Option.some.injEq] at hj
    have hjn : j < nch := by
      have := List.getElem?_eq_some_iff.mp hr
      obtain ⟨h1, _⟩ := this
      simpa using h1
    refine ⟨[], by simp [hjn], ?_⟩
    subst hj
    exact ⟨Or.inl ⟨rfl, rfl⟩, hn, hn⟩

/-- **C01 from start-up**: the statement for a run that begins with `PrepareRun`. -/
theorem C01_run_exact (zts : List (List (Int × Int))) (per f0 : Int) (nch : Nat) (npre nsamp : Int)
    (saved : List (Nat × TS)) (hn : 0 ≤ nsamp) (ops : List Op) (outs : List Out)
    (hcont : Contig per f0 (List.replicate nch []) ops)
    (h : runOps zts (prepare nch npre nsamp saved) ops = some outs) :
    OutsOK zts per f0 (List.replicate nch []) (prepare nch npre nsamp saved) ops outs :=
  C01_records_exact zts per f0 ops _ _ outs (prepare_inv per f0 nch npre nsamp saved hn) hcont h

/-! ### The run-time oracle accepts what the theorems establish -/

/-- `chkRec` (the function that judges the IMPLEMENTATION's records at run time) accepts every
record that is `RecOK`, has its pre-trigger length inside the record and — when the oracle knows
the channel is in a fixed-length mode — the configured lengths.  So the theorems above are about
the very predicate the correspondence run evaluates on the real code's output. -/
theorem C01_oracle_sound {G : List Nat} {f0 first t0 period : Int} {signed : Bool} {r : Rec}
    (tr : Truth) (ch start : Nat)
    (hok : RecOK G f0 first t0 period signed r)
    (hG : tr.streams[ch]? = some G) (hstart : first = f0 + start)
    (hnp : 0 ≤ r.npre ∧ r.npre ≤ r.data.length)
    (hfix : tr.lenKnown = true → (tr.emtVariable[ch]?.getD false) = false →
      r.npre = tr.npre ∧ (r.data.length : Int) = tr.nsamp) :
    chkRec tr ch start first t0 period signed r = none := by
  obtain ⟨⟨a, ha, hle, hdata⟩, htime, hsg⟩ := hok
  unfold chkRec
  simp only [hG, Option.getD_some]
  have hpos : (start : Int) + (r.frame - first) - r.npre = a := by omega
  rw [hpos]
  have h1 : ¬((a : Int) < 0 ∨ (a : Int) + (r.data.length : Int) > (G.length : Int)) := by omega
  simp only [h1, if_false, Int.toNat_natCast]
  have h2 : ((G.drop a).take r.data.length != r.data) = false := by
    rw [← hdata]; simp
  simp only [h2, Bool.false_eq_true, if_false]
  have h3 : ¬ r.time ≠ t0 + (r.frame - first) * period := by simpa using htime
  simp only [h3, if_false]
  have h4 : (r.signed != signed) = false := by rw [hsg]; simp
  simp only [h4, Bool.false_eq_true, if_false]
  have h5 : ¬(r.npre < 0 ∨ r.npre > (r.data.length : Int)) := by omega
  simp only [h5, if_false]
  split
  · rename_i hc
    obtain ⟨hk, hv, hne⟩ := hc
    have := hfix hk (by simpa using hv)
    omega
  · rfl

/-! ### No crash -/

/-- **No stream content or block pattern crashes edge / level / auto triggering**: for every
buffer (any length, any values), every trigger state outside edge-multi and every hold-off
reference, `TriggerData` returns — no read and no record cut leaves the buffer — provided the
record lengths satisfy the rule `ConfigurePulseLengths` enforces. -/
theorem C01_no_crash_nonEMT (c : Chan) (zt : ZT) (hv : 3 ≤ c.npre ∧ c.npre < c.nsamp)
    (hem : c.ts.edgeMulti = false) : ∃ c' recs, triggerData c zt = some (c', recs) :=
  triggerData_nonEMT_some c zt hv hem

/-- **No stream content, block pattern or request sequence makes processing crash** — the whole source:
all channels, every trigger type (edge, level, auto, edge-multi in every record mode with any kink-fit
oracle that moves a trigger by −1, 0 or +1, group triggers with any connection edits), starting from
`PrepareRun` with restored or default settings and valid record lengths.  `OpsOK` only asks of the
blocks what a data source guarantees (one segment per channel, equal lengths — any length, also 0 —,
consecutive non-negative frame numbers); requests are arbitrary, including refused ones. -/
theorem C01_no_crash (nch : Nat) (npre nsamp : Int) (saved : List (Nat × TS)) (hv : 3 ≤ npre ∧ npre < nsamp)
    (zts : List (List (Int × Int)))
    (hzt : ∀ (j : Nat) (p : Int), -1 ≤ ztOf (zts[j]?.getD []) p ∧ ztOf (zts[j]?.getD []) p ≤ 1)
    (ops : List Op) (F : Int) (hok : OpsOK nch F ops) :
    ∃ outs, runOps zts (prepare nch npre nsamp saved) ops = some outs := by
  obtain ⟨hs, hn⟩ := prepare_safe nch npre nsamp saved hv F
  exact runOps_safe zts hzt nch ops F _ npre nsamp hs hn hok

/-- `OpsOK` is met by an ordinary history: a block, a reconfiguration to edge-multi, an empty block, a
one-sample block -/
example : OpsOK 2 0 [.block 0 0 1000 [false, false] [[1, 2, 3], [4, 5, 6]],
    .trig { chans := [0], ts := { edgeMulti := true }, compat := ⟨false, false, true, false, 100, 1⟩ },
    .block 3 3000 1000 [false, false] [[], []], .block 3 3000 1000 [false, false] [[7], [8]]] := by
  refine ⟨rfl, 3, by simp, by decide, rfl, ?_⟩
  refine ⟨rfl, 0, by simp, by decide, rfl, ?_⟩
  exact ⟨rfl, 1, by simp, by decide, rfl, trivial⟩

/-- the hypotheses are satisfiable by an ordinary channel -/
example : ∃ c : Chan, (3 ≤ c.npre ∧ c.npre < c.nsamp) ∧ c.ts.edgeMulti = false ∧ c.buf.length = 5 :=
  ⟨{ npre := 3, nsamp := 4, buf := [1, 2, 3, 400, 5], ts := { edge := true, edgeRising := true } }, by decide, rfl, rfl⟩

end DastardV.C01
