#!/bin/sh
# Offline setup after a fresh restore: build the Lean project (models, theorems, driver) and the Go harness.
set -e
cd "$(dirname "$0")"
export GOFLAGS=-mod=mod GOPROXY=off GOSUMDB=off GOTOOLCHAIN=local
mkdir -p build evidence replays
# every check rebuilds its own targets; a module that fails here only affects the property that needs it
(cd lean && lake build) || echo "setup: lake build reported errors (each check builds and reports its own targets)"
for d in harness extract; do
  if [ -d "$d" ]; then cp /repo/go.sum "$d/go.sum"; (cd "$d" && go build -tags verif -o ../build/_setup_$d . && rm -f ../build/_setup_$d); fi
done
echo setup-ok
